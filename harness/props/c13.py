"""C13 — rotation of a circular record is a lossless group action"""
import gen
import impl
from wire import CRec, feats_to_json, feats_from_json, positions, site_positions, reading

TABLES = []
LAKE_TARGETS = ["Moclo.Props.C13"]
THEOREMS = ["Moclo.C13." + t for t in [
    "rotate_right_moves_last_letters_to_front", "letter_position", "rotations_compose",
    "multiple_of_length_is_identity", "left_inverts_right", "right_inverts_left",
    "track_follows_sequence", "feature_follows_sequence", "record_carried", "record_features", "reading_order_rotates"]]
# reductions under which a failing case stays a case of this property (see shrink.py)
SHRINK = {"lists": ["feats"], "ints": ["k", "k2", "m"]}
RULE = ("random records (length 1..40 with a tail to 400, mixed case / IUPAC letters) with feature tables "
        "(simple, compound, origin-spanning, over-the-end, negative, whole-length source, all strands) and a "
        "per-letter track, rotated by k in [-3n, 3n] and composed with a second rotation; non-trivial = "
        "the record has length >= 2 and k is not a multiple of the length; distinct by content")
ASSUMPTIONS = ["feature parts are well formed: -n < s < n, s < e <= s+n, 0 < e (what GenBank, >>, << and "
               "reverse_complement produce)", "n >= 1 (n = 0 raises ZeroDivisionError, checked separately)"]


def denot(feats, n):
    return [(f.ftype, f.qual, positions(f.parts, n), site_positions(f.parts, n)) for f in feats]


def shifted(den, k, n):
    return [(t, q, sorted(((p + k) % n, st) for (p, st) in ps), sorted(((p + k) % n, st) for (p, st) in ss))
            for (t, q, ps, ss) in den]


def gen_case(rng):
    wd = gen.word(rng)
    n = len(wd)
    return {"word": wd, "feats": feats_to_json(gen.gen_features(rng, n, sites=True)),
            "track": [rng.randrange(100) for _ in range(n)],
            "k": rng.randint(-3 * n, 3 * n), "k2": rng.randint(-2 * n, 2 * n),
            "m": rng.randint(-3, 3)}


def check_case(ctx, case):
    wd, k, k2 = case["word"], case["k"], case["k2"]
    feats = feats_from_json(case["feats"])
    track = case["track"]
    n = len(wd)
    rec = impl.mk_record(CRec(7, wd, feats, []), track=track)
    rec.annotations["note"] = "kept"
    rec.dbxrefs = ["db:1"]
    ann_before = dict(rec.annotations)
    out = rec >> k
    if dict(rec.annotations) != ann_before:
        ctx.fail("rotating a record changes the annotations of the record it was asked of: {} -> {}".format(
            sorted(ann_before), sorted(rec.annotations)), case)
    elif dict(out.annotations) != ann_before:
        ctx.fail("the annotations of the rotated record are {} instead of those of the original, {}".format(
            sorted(out.annotations), sorted(ann_before)), case)
    cin = impl.canon_record(rec)
    cout = impl.canon_record(out)
    kk = k % n
    exp = gen.rot(wd, k)
    if cout.seq != exp:
        ctx.fail("record >> {} gives {} instead of the last {} letters moved to the front ({})".format(
            k, cout.seq, kk, exp), case)
    if not isinstance(out, impl.CircularRecord):
        ctx.fail("rotation does not return a CircularRecord", case)
    if (out.id, out.name, out.description, out.dbxrefs, out.annotations.get("note")) != \
            (rec.id, rec.name, rec.description, rec.dbxrefs, "kept"):
        ctx.fail("identifiers / annotations not carried over by rotation", case)
    # the order in which a stranded feature reads its nucleotides (the order of the parts of a join) moves along too
    rd_in = sorted((f.ftype, f.qual, reading(tuple((s_ + k, e_ + k, st_) for (s_, e_, st_) in f.parts), n))
                   for f in cin.feats if reading(f.parts, n) is not None)
    rd_out = sorted((f.ftype, f.qual, reading(f.parts, n)) for f in cout.feats if reading(f.parts, n) is not None)
    if rd_in != rd_out:
        ctx.fail("after >> {} some stranded feature no longer reads the same nucleotides in the same order".format(k), case)
    # bibliography entries with a base range are annotations like any other: carried over as they are, and computing a
    # rotation leaves the record it was computed from alone
    if n >= 2 and case.get("m") == 1:
        r4 = impl.mk_record(CRec(3, wd, feats, [108, 109, 113]))

        def bib(rec_):
            return [(impl.ref_id(x), str(x.location)) for x in rec_.annotations.get("references", [])]
        b0 = bib(r4)
        o4 = r4 >> k
        o4b = r4 >> k
        if bib(r4) != b0:
            ctx.fail("computing record >> {} changes the reference list of the record itself: {} -> {}".format(k, b0, bib(r4)), case)
        elif bib(o4) != b0 or bib(o4b) != b0:
            ctx.fail("the reference list is not carried over unchanged by >> {}: {} -> {}".format(k, b0, bib(o4b)), case)
        # augmented assignment is the same operation
        r5 = impl.mk_record(CRec(3, wd, feats, []), track=track)
        r5 >>= k
        if str(r5.seq) != str(out.seq) or r5.letter_annotations.get("track") != out.letter_annotations.get("track") or \
                denot(impl.canon_record(r5).feats, n) != denot(cout.feats, n):
            ctx.fail("record >>= {} differs from record >> {} (sequence, per-letter track or features)".format(k, k), case)
        r6 = impl.mk_record(CRec(3, wd, feats, []), track=track)
        r6 <<= k
        o6 = impl.mk_record(CRec(3, wd, feats, []), track=track) << k
        if str(r6.seq) != str(o6.seq) or r6.letter_annotations.get("track") != o6.letter_annotations.get("track"):
            ctx.fail("record <<= {} differs from record << {}".format(k, k), case)
    # a feature without a location (what the parser leaves for a location it cannot read) stays without one, in place
    if n >= 2 and case.get("m") == 1 and len(rec.features) >= 1:
        from Bio.SeqFeature import SeqFeature
        r2 = impl.mk_record(CRec(3, wd, feats, []))
        r2.features.insert(1, SeqFeature(None, type="misc_feature", id="F-none", qualifiers={"label": ["nowhere"]}))
        for i_, f_ in enumerate(r2.features):
            if f_.id in (None, "<unknown id>"):
                f_.id = "F{}".format(i_)
        o2 = r2 >> k
        if [f_.id for f_ in o2.features] != [f_.id for f_ in r2.features]:
            ctx.fail("rotation does not carry the identifiers of the features over, in order: {} -> {}".format(
                [f_.id for f_ in r2.features], [f_.id for f_ in o2.features]), case)
        elif o2.features[1].location is not None:
            ctx.fail("after >> {} a feature that had no location has the location {}".format(k, o2.features[1].location), case)
        else:
            rest_in = [canon_f for i_, canon_f in enumerate(impl.canon_feature(f_) for f_ in r2.features if f_.location is not None)]
            rest_out = [impl.canon_feature(f_) for f_ in o2.features if f_.location is not None]
            if denot(rest_out, n) != shifted(denot(rest_in, n), k, n):
                ctx.fail("with a location-less feature in the table, >> {} moves the located features elsewhere".format(k), case)
    d_in, d_out = denot(cin.feats, n), denot(cout.feats, n)
    if d_out != shifted(d_in, k, n):
        ctx.fail("after >> {} some feature is not attached to the same nucleotides: {} vs expected {}".format(
            k, d_out, shifted(d_in, k, n)), case, key=None)
    for label, rr in (("r >> {}".format(k), cout), ("(r >> {}) >> {}".format(k, k2), impl.canon_record((rec >> k) >> k2))):
        bad = [(s, e) for ft in rr.feats for (s, e, _) in ft.parts
               if not ((-n < s < n and s < e <= s + n and e > 0) or (s == e and 0 <= s <= n))]
        if bad:
            ctx.fail("{} yields the location [{}, {}) on a record of length {}: not a stretch Biopython can read "
                     "(extract() gives nothing for it)".format(label, bad[0][0], bad[0][1], n), case)
            break
    if [f.cites for f in cout.feats] != [f.cites for f in cin.feats]:
        ctx.fail("qualifiers changed by rotation", case)
    tr = out.letter_annotations.get("track")
    if tr is None or any(tr[(i + k) % n] != track[i] for i in range(n)):
        ctx.fail("per-letter annotation track not rotated with the sequence by >> {}: {} from {}".format(
            k, tr, track), case)
    # group laws
    two = (rec >> k) >> k2
    one = rec >> (k + k2)
    c2, c1 = impl.canon_record(two), impl.canon_record(one)
    if c2.seq != c1.seq or denot(c2.feats, n) != denot(c1.feats, n) or \
            two.letter_annotations.get("track") != one.letter_annotations.get("track"):
        ctx.fail("(r >> {}) >> {} differs from r >> {}".format(k, k2, k + k2), case)
    left = rec << k2
    ltr = left.letter_annotations.get("track")
    if str(left.seq) != gen.rot(wd, -k2) or ltr is None or any(ltr[(i - k2) % n] != track[i] for i in range(n)):
        ctx.fail("record << {}: sequence or per-letter annotation track not rotated to the left together: {} / {} from {} / {}".format(
            k2, str(left.seq), ltr, wd, track), case)
    if denot(impl.canon_record(left).feats, n) != shifted(d_in, -k2, n):
        ctx.fail("after << {} some feature is not attached to the same nucleotides".format(k2), case)
    bare = impl.mk_record(CRec(7, wd, [], []), track=track)        # no feature table at all
    for kk3 in (k, -k2):
        b2 = bare >> kk3 if kk3 == k else bare << k2
        want = [track[(i - (k if kk3 == k else -k2)) % n] for i in range(n)]
        if list(b2.letter_annotations.get("track", [])) != want:
            ctx.fail("a record without features: per-letter track not rotated with the sequence ({} {})".format(
                ">>" if kk3 == k else "<<", k if kk3 == k else k2), case)
    # a record built from a bare sequence, annotated afterwards: rotating neither adds to nor removes from what it says
    plain = impl.CircularRecord(impl.Seq(wd), id="bare")
    plain.annotations["organism"] = "synthetic"
    snap = dict(plain.annotations)
    for res_, how_ in ((plain >> k, ">>"), (plain << k2, "<<")):
        if dict(plain.annotations) != snap or dict(res_.annotations) != snap:
            ctx.fail("rotating ({}) a record built from a bare sequence changes its annotations: {} -> operand {} / "
                     "result {}".format(how_, sorted(snap), sorted(plain.annotations), sorted(res_.annotations)), case)
            break
    back = impl.canon_record((rec >> k) << k)
    if back.seq != wd or denot(back.feats, n) != d_in:
        ctx.fail("(r >> {}) << {} is not r".format(k, k), case)
    back = impl.canon_record((rec << k) >> k)
    if back.seq != wd or denot(back.feats, n) != d_in:
        ctx.fail("(r << {}) >> {} is not r".format(k, k), case)
    full = impl.canon_record(rec >> (case["m"] * n))
    if full.seq != wd or denot(full.feats, n) != d_in:
        ctx.fail("rotation by {} x length is not the identity".format(case["m"]), case)
    # other legal spellings of a record: a feature without location, per-letter values held in a string or a
    # tuple, a MutableSeq sequence
    if n >= 1:
        from Bio.Seq import MutableSeq
        from Bio.SeqFeature import SeqFeature
        alt = impl.mk_record(CRec(7, wd, feats, []))
        alt.seq = MutableSeq(wd)
        alt.features.insert(len(alt.features) // 2, SeqFeature(None, type="misc_feature", qualifiers={"label": ["noloc"]}))
        alt.letter_annotations["asstr"] = "".join(chr(65 + (i % 26)) for i in range(n))
        alt.letter_annotations["astuple"] = tuple(range(n))
        ro = alt >> k
        if str(ro.seq) != exp:
            ctx.fail("a record holding a MutableSeq is not rotated like one holding a Seq (>> {})".format(k), case)
        nl = [ft for ft in ro.features if ft.qualifiers.get("label") == ["noloc"]]
        if len(nl) != 1 or nl[0].location is not None:
            ctx.fail("a feature without location is not carried over unchanged by >> {}".format(k), case)
        rest = impl.canon_record(impl.CircularRecord(impl.Seq(str(ro.seq)), id="x",
                                                     features=[ft for ft in ro.features if ft.location is not None]))
        if denot(rest.feats, n) != shifted(d_in, k, n):
            ctx.fail("with a location-less feature in the table the other features are not rotated correctly", case)
        s_, t_ = alt.letter_annotations["asstr"], alt.letter_annotations["astuple"]
        if list(ro.letter_annotations.get("asstr", "")) != [s_[(i - k) % n] for i in range(n)] or \
                list(ro.letter_annotations.get("astuple", ())) != [t_[(i - k) % n] for i in range(n)]:
            ctx.fail("per-letter values held in a string / tuple are not rotated with the sequence by >> {}".format(k), case)
    # the record is curated in place and rotated again: the answer must describe the record as it is now
    if n >= 2:
        from Bio.SeqFeature import SeqFeature, SimpleLocation
        a = ctx.rng.randrange(n)
        b = ctx.rng.randint(a + 1, n)
        rec.id = "edited"
        rec.features.append(SeqFeature(SimpleLocation(a, b, 1), type="misc_feature", qualifiers={"label": ["u99"]}))
        if rec.features and len(rec.features) > 1:
            del rec.features[0]
        rec.letter_annotations["track"] = [x + 1 for x in track]
        fresh = impl.CircularRecord(rec)           # a new object holding what `rec` holds now
        for kk2 in (k, k + n, k - n):
            got, want = rec >> kk2, fresh >> kk2
            cg, cw = impl.canon_record(got), impl.canon_record(want)
            if got.id != "edited" or cg.seq != cw.seq or denot(cg.feats, n) != denot(cw.feats, n) or \
                    got.letter_annotations.get("track") != want.letter_annotations.get("track"):
                ctx.fail("after editing the record in place (id, features, track), >> {} still answers for the "
                         "record as it was before the edit".format(kk2), case)
                break
        ctx.note("edited-then-rotated")
    ctx.note("len<=10" if n <= 10 else "len<=40" if n <= 40 else "len>40")
    ctx.note("wraps" if any(p[1] > n or p[0] < 0 for f in feats for p in f.parts) else "plain-coords")
    ctx.case(case, nontrivial=(n >= 2 and kk != 0))
    ctx.op(("ROT", wd, k, feats, track), case)
    ctx.op(("ROTL", wd, k2, feats, track), case)


def run(ctx):
    # n = 0: documented failure mode
    try:
        impl.CircularRecord(impl.Seq(""), id="e") >> 1
        ctx.note("empty-record-rotation-returned")
    except ZeroDivisionError:
        ctx.note("empty-record-zerodiv")
    # small scope, exhaustively: every well-formed single-part location (and the zero-width sites) on records of
    # length 1..3 (thorough: ..5), as a `source` and as an ordinary feature, on each strand, under every shift
    # from one turn backwards to two turns forwards
    from wire import Feat
    top = 3 if ctx.tier == "quick" else 5
    for n in range(1, top + 1):
        wd = "ACgTN"[:n]
        locs = [(s_, e_) for s_ in range(-n + 1, n) for e_ in range(max(s_ + 1, 1), s_ + n + 1)] + \
               [(p_, p_) for p_ in range(0, n + 1)]
        for (s_, e_) in locs:
            for ftype in (0, 1):
                for st in ((1, -1, 0) if ftype == 1 else (0,)):
                    for k in range(-n - 1, 2 * n + 2):
                        ctx.guard(check_case, {"word": wd, "feats": feats_to_json([Feat(ftype, "u1", (), ((s_, e_, st),))]),
                                               "track": list(range(n)), "k": k, "k2": (k * 7 + s_) % (2 * n + 1) - n, "m": 1})
    # … and every *two-part* `source` feature made of plain parts (overlapping, gapped, listed in either order, summing
    # to the record length or not): only the one-part whole-length `source` stays where it is
    for n in range(2, min(top, 4) + 1):
        wd = "ACgTN"[:n]
        plain = [(s_, e_) for s_ in range(0, n) for e_ in range(s_ + 1, n + 1)]
        for a_ in plain:
            for b_ in plain:
                for st in (0, 1):
                    for k in (1, n - 1, n + 1, -1):
                        ctx.guard(check_case, {"word": wd, "feats": feats_to_json([Feat(0, "u1", (), ((a_[0], a_[1], st), (b_[0], b_[1], st)))]),
                                               "track": list(range(n)), "k": k, "k2": 1, "m": 1})
    # … and the three-part `source` features that begin at 0 and finish at the end of the record, joined or ordered
    for n in ((4,) if ctx.tier == "quick" else (3, 4, 5)):
        wd = "ACgTN"[:n]
        for j_, ps in enumerate(gen.source_lookalikes(n)):
            st = (0, 1, -1)[j_ % 3]
            ctx.guard(check_case, {"word": wd, "feats": feats_to_json([Feat(0, "u%d" % (1 + j_ % 2), (), tuple((s_, e_, st) for s_, e_ in ps))]),
                                   "track": list(range(n)), "k": (1, n - 1)[j_ % 2], "k2": 1, "m": 1})
    # words that are their own rotation (tandem repeats): the record still turns, the features with it
    for unit, reps in (("AC", 3), ("ACG", 2), ("A", 4), ("ACGT", 3)):
        wd = unit * reps
        n = len(wd)
        for k in range(0, n + 1):
            ctx.guard(check_case, {"word": wd, "feats": feats_to_json([Feat(1, "u1", (), ((1, min(n, 3), 1),)),
                                                                        Feat(2, "u2", (), ((0, 1, -1), (n - 1, n, -1)))]),
                                   "track": [i_ % len(unit) for i_ in range(n)], "k": k, "k2": len(unit), "m": 1})
    ctx.extra["cov_small_scope"] = "all single-part locations on records of length 1..{}, every shift in [-n-1, 2n+1]".format(top)
    for _ in range(ctx.budget(1500, 60000)):
        ctx.guard(check_case, gen_case(ctx.rng))
