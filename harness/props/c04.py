"""C04 — reported overhangs and fragments are true restriction fragments of the cutter"""
import asm
import boot
import gen
import impl
import typing_h as T

TABLES = ["Kits", "Enzymes", "Enzymes3"]
LAKE_TARGETS = ["Moclo.Props.C04", "Moclo.Tables.Kits", "Moclo.Tables.Enzymes", "Moclo.Tables.Enzymes3"]
THEOREMS = ["Moclo.C04." + t for t in ["kit_classes_cut_aligned", "generic_classes_cut_aligned", "marks_and_sites", "accepted_record_fragments", "placeholder_target_tile", "placeholder_target_isRotated", "cutter_sites_plain", "no_inner_cut",
                                       "three_prime_same_screen", "three_prime_fragments", "three_prime_tile", "three_prime_same_fragment",
                                       "three_prime_structures"]]
# reductions under which a failing case stays a case of this property (see shrink.py)
SHRINK = {"strings": True}
RULE = ("every concrete class of the five kits and generic classes over every enzyme geometry; records built "
        "around an instance of the class structure with random run lengths, optionally extra recognition sites, "
        "neighbouring-kit structures and mutated letters, at a random rotation; for every *accepted* record the "
        "reported overhangs / target / placeholder are compared with the cut positions found by plain string "
        "search from (site, offset, overhang length). non-trivial = the record is accepted; distinct by (class, word)")
ASSUMPTIONS = ["5'-overhang cutters (all kit cutters and the 58 supported enzymes)"]


def check_case(ctx, case):
    if case.get("deg"):
        return check_degenerate(ctx, case)
    if "enz" in case and "sig" in case:
        return check_three_prime(ctx, case)
    cls = asm.cls_by_name(case["cls"])
    wd = case["word"]
    n = len(wd)
    prior = None
    if case.get("prior") and n > 1:
        # two files, two wrappers: wrapper A around r1 is asked and stays alive, r1's sequence is then replaced (a corrected
        # read); another record r2 holding r1's old letters is wrapped: it is typed on its own letters
        base0 = T.evaluate(cls, wd)[:3]
        r1_ = impl.mk_record(impl.CRec(0, wd, [], []))
        wa_ = cls(r1_)
        try:
            wa_.is_valid() and wa_.overhang_start()
        except Exception:  # noqa
            pass
        r1_.seq = impl.Seq(wd[::-1])
        got0 = T.evaluate(cls, wd)[:3]
        if got0 != base0:
            ctx.fail("{} on {!r} answers {} — and {} while a wrapper of the same class is alive around another record that held "
                     "these letters before its sequence was replaced".format(cls.__name__, wd, base0, got0), case)
        del wa_, r1_
        # the same plasmid opened at another origin was typed with the same class just before, and that wrapper is
        # still referenced
        prior = cls(impl.mk_record(impl.CRec(0, gen.rot(wd, 1 + case["prior"] % (n - 1)), [], [])))
        try:
            prior.is_valid() and prior.target_sequence()
        except Exception:  # noqa
            pass
        ctx.note("prior-wrapper-alive")
    if prior is not None:
        # … and the same file read as a linear fragment (same name, same letters) is typed on its own too: what a live
        # wrapper of the circular plasmid found is not an answer about the fragment
        def as_fragment():
            lr = impl.SeqRecord(impl.Seq(wd), id="r0", name="Lr0", annotations={"topology": "linear"})
            try:
                return bool(cls(lr).is_valid())
            except Exception as e:  # noqa
                return "exc:" + type(e).__name__
        lin0 = as_fragment()
        twin = cls(impl.mk_record(impl.CRec(0, wd, [], [])))
        try:
            twin.is_valid() and twin.target_sequence()
        except Exception:  # noqa
            pass
        lin1 = as_fragment()
        if lin0 != lin1:
            ctx.fail("{} on {!r} read as a linear fragment answers {} — and {} while a wrapper of the same class around the "
                     "circular plasmid of the same name is alive".format(cls.__name__, wd, lin0, lin1), case)
        del twin
    if prior is not None:
        # a wrapper built around a record and first asked after that record's sequence was replaced (a corrected read):
        # it answers about the record as it is now
        rec_l = impl.mk_record(impl.CRec(0, gen.rot(wd, 1 + case["prior"] % (n - 1))[::-1], [], []))
        late = cls(rec_l)
        rec_l.seq = impl.Seq(wd)
        try:
            v_late = bool(late.is_valid())
        except Exception as e:  # noqa
            v_late = "exc:" + type(e).__name__
        try:
            v_now = bool(cls(impl.mk_record(impl.CRec(0, wd, [], []))).is_valid())
        except Exception as e:  # noqa
            v_now = "exc:" + type(e).__name__
        if v_late != v_now:
            ctx.fail("{}: a wrapper built before the record's sequence was replaced by {!r} answers {} where a wrapper built "
                     "afterwards answers {}".format(cls.__name__, wd, v_late, v_now), case)
    res = T.evaluate(cls, wd)
    del prior
    ctx.note("verdict:" + res[0])
    ctx.case(case, nontrivial=res[0] == "valid", key=[case["cls"], wd])
    ctx.op(("EVAL", cls, wd, []), case)
    if res[0] != "valid":
        if res[0].startswith("exc"):
            ctx.fail("{} raises {} on {!r}".format(cls.__name__, res[0], wd), case)
        return
    _, up, down, target, ph, _ = res
    cuts, k = T.cut_positions(cls, wd)
    is_vec = issubclass(cls, boot.AbstractVector)
    d2 = wd * 2
    # candidate cut positions whose overhang text is the reported one
    ups = [c for c in cuts if d2[c:c + k] == up]
    downs = [c for c in cuts if d2[c:c + k] == down]
    if len(up) != k or len(down) != k or not ups or not downs:
        ctx.fail("{} on {!r}: reported overhangs {!r}/{!r} are not the {}-nt ends left at two cut positions {}".format(
            cls.__name__, wd, up, down, k, sorted(cuts)), case)
        return
    ok = False
    for a in ups:
        for b in downs:
            if a == b:
                continue
            if not is_vec:
                # module: target runs from the upstream cut (overhang included) to the downstream cut (excluded)
                if T.circ_slice(wd, a, b) == target:
                    ok = (a, b)
            else:
                # vector: the complementary stretch: from the upstream overhang to the downstream one (excluded)
                if T.circ_slice(wd, a, b) == target and T.circ_slice(wd, b, a) == ph:
                    ok = (a, b)
    if not ok:
        ctx.fail("{} on {!r}: target {!r}{} is not the stretch between the two cuts whose overhangs are reported "
                 "({!r} at {}, {!r} at {})".format(cls.__name__, wd, target, "" if ph is None else " / placeholder %r" % ph,
                                                  up, ups, down, downs), case)
        return
    a, b = ok
    if is_vec:
        if len(ph) + len(target) != n or ph not in d2:
            ctx.fail("{}: placeholder and target do not tile the plasmid".format(cls.__name__), case)
    else:
        # module classes whose sites flank the target: no further cut strictly inside the target
        site = cls.cutter.site
        pat = cls.structure()
        g1 = pat.index("(")
        flanking = pat[:g1].startswith(site)      # forward site upstream of group 1
        if flanking:
            inner = [c for c in cuts if 0 < (c - a) % n < (b - a) % n]
            if inner:
                ctx.fail("{} accepts {!r} although the enzyme also cuts strictly inside the target (at {})".format(
                    cls.__name__, wd, inner), case)


def check_three_prime(ctx, case):
    """signature-typed part classes over a 3'-overhang cutter (outside the Lean model, which covers the 5' cutters
    of the kits and of the generic classes): the clause about fragments that does not depend on the overhang
    side — a vector's placeholder is a contiguous stretch and tiles the plasmid with its target; a module's
    target is a contiguous stretch adjoining both reported overhangs — at every origin"""
    enz = next(e for e in boot.three_prime_enzymes() if str(e) == case["enz"])
    base = boot.AbstractModule if case["kind"] == "M" else boot.AbstractVector
    cls = type("Part3_{}_{}".format(case["kind"], enz), (boot.AbstractPart, base),
               {"cutter": enz, "signature": tuple(case["sig"])})
    wd = case["word"]
    n = len(wd)
    res = T.evaluate(cls, wd)
    ctx.note("3prime:" + res[0])
    ctx.case(case, nontrivial=res[0] == "valid", key=["3p", case["enz"], case["kind"], wd])
    if enz.fst3 >= 0 and not res[0].startswith("exc"):
        # both cuts downstream of the site: the model's 3' branch (matchSeq3 / targetOf3 / placeholder3)
        ctx.op(("EVAL", cls, wd, []), case)
        ctx.note("3prime-modelled")
    if res[0].startswith("exc"):
        ctx.fail("{} raises {} on {!r}".format(cls.__name__, res[0], wd), case)
    if res[0] != "valid":
        return
    _, up, down, target, ph, _ = res
    d = (wd + wd).upper()
    if case["kind"] == "V":
        if len(ph) + len(target) != n:
            ctx.fail("3' vector over {}: placeholder ({}) and target ({}) do not add up to the plasmid ({})".format(
                enz, len(ph), len(target), n), case)
        elif asm.canon_rot((ph + target).upper()) != asm.canon_rot(wd.upper()):
            ctx.fail("3' vector over {}: placeholder followed by target is not a rotation of the plasmid".format(enz), case)
        if ph.upper() not in d:
            ctx.fail("3' vector over {}: the placeholder is not a contiguous stretch of the plasmid".format(enz), case)
    else:
        if (up + target).upper() not in d or not target.upper().endswith(down.upper()):
            ctx.fail("3' module over {}: upstream overhang, target, downstream overhang are not the contiguous "
                     "stretch between the two cuts".format(enz), case)


def check_degenerate(ctx, case):
    """a part class over a cutter whose site is degenerate: an accepted record really carries a site of the
    enzyme on each strand (Bio.Restriction's own, IUPAC-aware search finds two cuts) — oracle only"""
    enz = next(e for e in boot.degenerate_site_enzymes() if str(e) == case["enz"])
    base = boot.AbstractModule if case["kind"] == "M" else boot.AbstractVector
    cls = type("PartD_{}_{}".format(case["kind"], enz), (boot.AbstractPart, base),
               {"cutter": enz, "signature": tuple(case["sig"])})
    wd = case["word"]
    res = T.evaluate(cls, wd)
    ctx.note("degenerate-site:" + res[0])
    ctx.case(case, nontrivial=res[0] == "valid", key=["deg", case["enz"], case["kind"], wd])
    if res[0].startswith("exc"):
        ctx.fail("{} raises {} on {!r}".format(cls.__name__, res[0], wd), case)
    if res[0] == "valid":
        cuts = enz.search(impl.Seq(wd), linear=False)
        if len(cuts) < 2:
            ctx.fail("{} accepts {!r} and reports overhangs {}/{} although {} cuts this plasmid {} time(s)".format(
                cls.__name__, wd, res[1], res[2], enz, len(cuts)), case)
    elif case.get("instance"):
        ctx.fail("{} rejects an instance of its own structure built from real sites of {}: {!r}".format(
            cls.__name__, enz, wd), case)


def run(ctx):
    rng = ctx.rng
    kits = boot.kit_classes()
    three = boot.three_prime_enzymes()
    degen = boot.degenerate_site_enzymes()
    for _ in range(ctx.budget(40, 1500)):
        enz = rng.choice(degen)
        k = abs(enz.ovhg)
        kind = rng.choice("MV")
        sig = [gen.rnd(rng, k), gen.rnd(rng, k)]
        base = boot.AbstractModule if kind == "M" else boot.AbstractVector
        cls = type("PartD", (boot.AbstractPart, base), {"cutter": enz, "signature": tuple(sig)})
        # (a) whatever the live structure spells  (b) the same with the enzyme's real sites written in
        inst, _ = gen.instantiate(rng, cls.structure(), runlen=rng.choice([0, 3, 6]))
        wd = inst + gen.rnd(rng, rng.randint(2, 8))
        ctx.guard(check_degenerate, {"enz": str(enz), "kind": kind, "sig": sig, "deg": True,
                                     "word": gen.rot(wd, rng.randrange(len(wd)))})
    # a plasmid with an uncertain base call written at a degenerate position of one of its sites, as a narrower ambiguity
    # code (CCKG where the site is CCDG): the enzyme has no site there, whatever the class answers
    import re as _re
    wide = [e_ for e_ in degen if any(c_ in "BDHVN" for c_ in e_.site)]
    ctx.extra["cov_sites_with_wide_codes"] = sorted(str(e_) for e_ in wide)
    for _ in range(ctx.budget(30, 800) if wide else 0):
        enz = rng.choice(wide)
        k = abs(enz.ovhg)
        kind = rng.choice("MV")
        sig = [gen.rnd(rng, k), gen.rnd(rng, k)]
        base = boot.AbstractModule if kind == "M" else boot.AbstractVector
        cls = type("PartD", (boot.AbstractPart, base), {"cutter": enz, "signature": tuple(sig)})
        inst, _g = gen.instantiate(rng, cls.structure(), runlen=rng.choice([0, 3, 6]))
        wd = inst + gen.rnd(rng, rng.randint(2, 8))
        m_ = _re.compile("".join("[" + gen.IUPAC[c_] + "]" for c_ in enz.site)).search(wd)
        d_ = rng.choice([i_ for i_, c_ in enumerate(enz.site) if c_ in "BDHVN"])
        narrower = [c_ for c_ in "RYSWKMBDHV" if c_ != enz.site[d_] and set(gen.IUPAC[c_]) < set(gen.IUPAC[enz.site[d_]])]
        if m_ and narrower:
            w2 = wd[:m_.start() + d_] + rng.choice(narrower) + wd[m_.start() + d_ + 1:]
            ctx.guard(check_degenerate, {"enz": str(enz), "kind": kind, "sig": sig, "deg": True,
                                         "word": gen.rot(w2, rng.randrange(len(w2)))})
            ctx.note("ambiguity-code-in-a-site")
    for _ in range(ctx.budget(60, 2000)):
        enz = rng.choice(three)
        k = abs(enz.ovhg)
        kind = rng.choice("MV")
        sig = [gen.rnd(rng, k), gen.rnd(rng, k)]
        base = boot.AbstractModule if kind == "M" else boot.AbstractVector
        cls = type("Part3", (boot.AbstractPart, base), {"cutter": enz, "signature": tuple(sig)})
        inst, _ = gen.instantiate(rng, cls.structure(), runlen=rng.choice([0, 2, 6]),
                                  forbid=(enz.site, gen.rc(enz.site)))
        wd = inst + gen.rnd_avoid(rng, rng.randint(2, 12), (enz.site, gen.rc(enz.site)))
        ctx.guard(check_three_prime, {"enz": str(enz), "kind": kind, "sig": sig,
                                      "word": gen.rot(wd, rng.randrange(len(wd)))})
    per = ctx.budget(20, 500)
    for cls in kits:
        name = asm.cls_name(cls)
        for j in range(per):
            wd, _ = T.kit_instance(rng, cls, extra_sites=(j % 4 == 3), runlen=rng.choice([0, 1, 3, 8, 25]))
            r = rng.random()
            if r < 0.15:
                wd = T.mutate(rng, wd)
            elif r < 0.25:
                other = rng.choice(kits)
                wd = wd + gen.instantiate(rng, other.structure(), runlen=2)[0]
            elif r < 0.3:
                wd = gen.recase(rng, wd)
            c_ = {"cls": name, "word": gen.rot(wd, rng.randrange(len(wd)))}
            if j % 5 == 2:
                c_["prior"] = rng.randrange(1, 1 << 20)
            ctx.guard(check_case, c_)
    # a third site of the class's own cutter inside the wildcard run, in every spelling
    for cls in kits:
        for _ in range(ctx.budget(3, 100)):
            wd = T.inner_site_instance(rng, cls)
            ctx.guard(check_case, {"cls": asm.cls_name(cls), "word": gen.rot(wd, rng.randrange(len(wd)))})
    # a further site that shares its first letter(s) with the last letter(s) of a flanking site (CGTCTCGTCTC): possible
    # whenever the site overlaps itself; its cut falls strictly inside the target
    selfov = []
    for enz in boot.supported_enzymes():
        S = enz.site
        bs = [b for b in range(1, len(S)) if S[:b] == S[-b:]]
        if bs and set(S) <= set("ACGT"):
            selfov.append((enz, bs))
    ctx.extra["cov_self_overlapping_sites"] = sorted(str(e) for e, _ in selfov)
    for _ in range(ctx.budget(60, 1500)):
        enz, bs = rng.choice(selfov)
        S, off, k = gen.geom(enz)
        fb = (S, gen.rc(S))
        F = S[rng.choice(bs):]
        tlen = max(2, len(F) - off - k) + rng.randint(2, 8)
        stretch = F + gen.rnd_avoid(rng, off + k + tlen - len(F), fb)
        wd = S + stretch + gen.rnd(rng, k) + gen.rnd_avoid(rng, off, fb) + gen.rc(S) + gen.rnd_avoid(rng, rng.randint(2, 9), fb)
        if rng.random() < 0.5:
            wd = gen.rc(wd)                 # the same next to the downstream site
        ctx.guard(check_case, {"cls": "generic:M:{}".format(enz), "word": gen.rot(wd, rng.randrange(len(wd)))})
        ctx.note("overlapping-extra-site")
    for enz in asm.pick_enzymes(rng, ctx.budget(150, 4000)):
        name = str(enz)
        kind = rng.choice("MV")
        if kind == "M":
            wd, _ = gen.gen_module(rng, enz, gen.ovh(rng, enz), gen.ovh(rng, enz))
        else:
            wd, _ = gen.gen_vector(rng, enz, gen.ovh(rng, enz), gen.ovh(rng, enz))
        if rng.random() < 0.2:
            wd += rng.choice([enz.site, gen.rc(enz.site)]) + gen.rnd(rng, 3)
        ctx.guard(check_case, {"cls": "generic:{}:{}".format(kind, name), "word": gen.rot(wd, rng.randrange(len(wd)))})
