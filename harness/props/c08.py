"""C08 — annotations are inherited faithfully by the assembled plasmid"""
import asm
import core
import gen
import impl
from wire import CRec, Feat, feats_to_json, feats_from_json, positions

TABLES = []
LAKE_TARGETS = ["Moclo.Props.C08"]
THEOREMS = ["Moclo.C08." + t for t in ["wf_rotr", "wf_flip", "wf_genbank", "part_inside_iff", "feature_kept_iff", "part_transport", "slice_all_or_nothing", "attributes_carried", "product_features", "product_is_concatenation_of_targets", "product_features_unrolled", "target_features"]]
RULE = ("well-formed assemblies over every enzyme geometry whose records carry feature tables: simple, multi-part and "
        "origin-spanning locations on either strand or strandless, nested and abutting features, features touching "
        "or exceeding the fragment boundaries by one nucleotide, well-formed negative and over-the-end coordinates; "
        "each annotated input rotated once or twice with the implementation's own operator; the expected product "
        "features are recomputed from nucleotide positions only. non-trivial = at least one feature is inherited and "
        "one is dropped; distinct by content")
ASSUMPTIONS = ["well-formed parts: -n < s < n, s < e <= s+n, 0 < e (GenBank locations and everything >>, << and "
               "reverse_complement produce)"]


def build(rng, enz):
    g = gen.gen_assembly(rng, enz, rng.randint(1, 4))
    if g is None:
        return None
    (vw, vd), mods, expected = g
    site, off, k = gen.geom(enz)
    name = str(enz)
    inputs = []
    for i, (mw, md) in enumerate(mods):
        inputs.append((i + 1, "generic:M:" + name, mw, len(site) + off, k + len(md["t"])))
    inputs.append((0, "generic:V:" + name, vw, 0, k + len(vd["b"])))
    ents = []
    meta = []
    for oid, cname, wd, fs, L in inputs:
        n = len(wd)
        # some inputs are documented: a reference list, and features citing it (a citation is a qualifier like any
        # other: in the product it must still designate the same paper)
        refs = [100 + rng.randrange(20) for _ in range(rng.choice([0, 0, 1, 2, 3, 5]))]
        refs = list(dict.fromkeys(refs))
        feats = gen.gen_features(rng, n, rng.choice([0, 2, 4, 6]), allow_cites=len(refs))
        # partial `source`-typed features are what the library itself generates for every fragment, so any
        # product re-used one level up carries them: keep them in the tables
        if fs + L <= n and L >= 3 and rng.random() < 0.6:
            a = rng.randrange(fs, fs + L - 1)
            feats.append(Feat(0, "s{}".format(40 + rng.randrange(5)), (), ((a, rng.randint(a + 1, fs + L), 0),)))
        feats += gen.features_inside(rng, fs, min(n, fs + L), rng.choice([0, 1, 2, 3]), n, allow_cites=len(refs))
        if fs + L <= n and rng.random() < 0.5:
            feats.append(Feat(1, "u90", (), ((fs, fs + L, rng.choice([1, -1, 0])),)))          # exactly the fragment
        if fs + L + 1 <= n and rng.random() < 0.5:
            feats.append(Feat(1, "u91", (), ((fs, fs + L + 1, 1),)))                            # one past the end
        if fs >= 1 and rng.random() < 0.5:
            feats.append(Feat(1, "u92", (), ((fs - 1, fs + 2, -1),)))                           # one before the start
        if L >= 4 and fs + L <= n and rng.random() < 0.5:
            feats.append(Feat(2, "u93", (), ((fs, fs + 2, 1), (fs + 2, fs + L, 1))))            # abutting parts
        if L >= 2 and fs + L <= n and rng.random() < 0.25:
            # a feature that was never given a type (SeqFeature's default, the empty string): inherited as it is
            a_ = rng.randrange(fs, fs + L - 1)
            feats.append(Feat(8, "u96", (), ((a_, a_ + 1, rng.choice([1, -1])),)))
        if L >= 3 and fs + L <= n and rng.random() < 0.4:
            # a between-bases site (`p^p+1`, a zero-width location) strictly inside the retained fragment
            p_ = rng.randrange(fs + 1, fs + L)
            feats.append(Feat(5, "u95", (), ((p_, p_, rng.choice([1, -1, 0])),)))
        if L >= 4 and fs + L <= n and rng.random() < 0.5:
            a = rng.randrange(fs, fs + L - 3)
            b = rng.randint(a + 1, fs + L - 2)
            c2 = rng.randint(b + 1, fs + L - 1)
            parts = [(a, b, rng.choice([1, -1])), (c2, fs + L, rng.choice([1, -1, 0]))]   # parts on different strands
            feats.append(Feat(3, "u94", (), tuple(parts if rng.random() < 0.5 else parts[::-1])))
        # the inputs are placed by the harness's own rotation (never by the operator under test: a case must not
        # depend on the tree that generated it)
        k1 = rng.randrange(n)
        if rng.random() < 0.3:
            k1 = (k1 + rng.randrange(n)) % n
        c = CRec(oid, gen.rot(wd, k1), gen.rotate_feats(feats, n, k1), refs)
        # a location running past the end is what `>>` writes; a GenBank file spells the same feature as a join
        # across the origin: use both spellings
        cf = []
        for ft in c.feats:
            ps = []
            for (s, e, st) in ft.parts:
                if 0 <= s < n < e <= s + n and rng.random() < 0.5:
                    two = [(s, n, st), (0, e - n, st)]
                    ps += two[::-1] if st == -1 else two
                else:
                    ps.append((s, e, st))
            cf.append(ft._replace(parts=tuple(ps)))
        ents.append(asm.ent_json(oid, cname, c.seq, cf, refs=refs))
        meta.append({"oid": oid, "word": wd, "feats": feats_to_json(feats), "fs": fs, "L": L, "refs": refs})
    mods_j = ents[:-1]
    rng.shuffle(mods_j)
    return {"enz": name, "vector": ents[-1], "mods": mods_j, "meta": meta, "pid": 5, "pname": 6}


def expected_features(meta):
    exp = []
    stats = [0, 0]
    offset = 0
    for m in meta:
        n, fs, L = len(m["word"]), m["fs"], m["L"]
        frag = set((fs + t) % n for t in range(L))
        for f in feats_from_json(m["feats"]):
            pos = [[t % n for t in range(s, e)] for (s, e, st) in f.parts]
            sites = [(s, st) for (s, e, st) in f.parts if s == e]
            if all(set(q) <= frag for q in pos) and all(fs < p_ < fs + L for p_, _ in sites):
                mapped = sorted((offset + ((t - fs) % n), st) for q, (s, e, st) in zip(pos, f.parts) for t in q)
                # a zero-width site keeps its place between the same two nucleotides (strand code 9 marks a site)
                mapped += sorted((offset + (p_ - fs), 9) for p_, _ in sites)
                cited = tuple(m.get("refs", [])[int(c_[1:]) - 1] for c_ in f.cites if c_[0] == "i")
                exp.append((f.ftype, f.qual, tuple(mapped), cited))
                stats[0] += 1
            else:
                stats[1] += 1
        offset += L
    return sorted(exp), stats


def check_case(ctx, case):
    op = asm.asm_op(case)
    reply, prod, _ = impl.run_asm(op)
    f = reply.split("\t")
    kept = dropped = 0
    if f[0] != "ok":
        ctx.fail("annotated well-formed assembly fails: {}".format(f[1]), case)
    else:
        N = len(prod.seq)
        exp, (kept, dropped) = expected_features(case["meta"])
        generated = {"s{}".format(m["oid"]) for m in case["meta"]}
        got = []
        cprod = impl.canon_record(prod)
        for pf in cprod.feats:
            if pf.ftype == 0 and pf.qual in generated:
                continue        # the provenance feature generated for a fragment of one of the inputs
            got.append((pf.ftype, pf.qual, tuple(sorted((t % N, st) for (s, e, st) in pf.parts for t in range(s, e))
                                                 + sorted((s % N, 9) for (s, e, st) in pf.parts if s == e)),
                        tuple((cprod.refs[int(c_[1:]) - 1] if c_[0] == "i" and c_[1:].isdigit()
                               and 0 < int(c_[1:]) <= len(cprod.refs) else "unresolved:" + c_) for c_ in pf.cites)))
        got.sort()
        if got != exp:
            extra = [g for g in got if g not in exp][:2]
            missing = [e for e in exp if e not in got][:2]
            ctx.fail("inherited features differ from the positional expectation: unexpected {} ; missing {}".format(
                extra, missing), case)
    if core.pick(case, 3):
        asm.lifecycle(ctx, case, edit=True)
    if core.pick(case, 2) and f[0] == "ok":
        # one input is turned by r, and by r plus two or three whole turns: the same record, hence the same product
        outs = []
        for extra in (0, 1):
            v_, ms_, objs = impl.build_entities(op[3], op[4])
            oids = sorted(objs)
            pick_ = oids[len(case["mods"]) % len(oids)]
            ent = objs[pick_]
            n_ = len(ent.record.seq)
            r_ = 1 + n_ % 3
            turns = (2 + n_ % 2) * extra
            turned = type(ent)(ent.record >> (turns * n_ + r_))
            objs[pick_] = turned
            v2 = turned if v_ is ent else v_
            ms2 = [turned if m is ent else m for m in ms_]
            outs.append((asm._outcome(impl.run_asm(op, entities=(v2, ms2, objs))[0]), turns * n_ + r_, pick_))
        if outs[0][0] != outs[1][0]:
            ctx.fail("input {} turned by {} and by {} (whole turns more) give different products: {} vs {}".format(
                outs[0][2], outs[0][1], outs[1][1], outs[0][0][1][:160], outs[1][0][1][:160]), case)
        ctx.note("whole-turns")
    ctx.note("kept", kept)
    ctx.note("dropped", dropped)
    ctx.case({k: v for k, v in case.items() if k != "meta"}, nontrivial=kept > 0 and dropped > 0)
    ctx.op(op, None, reply=reply)


def run(ctx):
    rng = ctx.rng
    for enz in asm.pick_enzymes(rng, ctx.budget(400, 15000)):
        case = build(rng, enz)
        if case is not None:
            ctx.guard(check_case, case)
