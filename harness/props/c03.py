"""C03 — ambiguous or incomplete module sets never produce a plasmid"""
import itertools

import asm
import core
import gen
import impl
from impl import EntSpec
from wire import CRec

TABLES = []
LAKE_TARGETS = ["Moclo.Props.C03"]
THEOREMS = ["Moclo.C03." + t for t in ["ok_sound", "ok_complete", "error_classes", "order_independent", "palindromic_start_refused"]]
# reductions under which a failing case stays a case of this property (see shrink.py)
SHRINK = {"lists": ["mods", "lower"], "ints": [], "freeze_if": ["recipe"]}
RULE = ("real plasmids over a 2-nt cutter for every (start, end) pair of the overhang alphabet "
        "{AA,TT,AC,GT,AT,CG,CA} (equal, reverse-complementary and palindromic overhangs); all multisets of <= 2 "
        "modules (quick) / <= 3 (thorough) x 6 vectors x all argument orders, plus random multisets of 3-5 modules "
        "(incl. the same object supplied twice) in random orders; outcome compared with an independent graph "
        "specification. non-trivial = the outcome class and chain length of the configuration; distinct by "
        "(vector, sorted module multiset)")
ASSUMPTIONS = ["one Python object is one module (SameObj)"]

OVS = ["AA", "TT", "AC", "GT", "AT", "CG", "CA"]
VECTORS = [("AA", "AC"), ("AC", "AA"), ("AA", "AA"), ("AT", "CA"), ("CA", "CG"), ("AA", "TT")]  # (down, up)
_cache = {}


def enzyme():
    import boot
    for e in boot.supported_enzymes():
        if abs(e.ovhg) == 2:
            return e
    raise RuntimeError("no 2-nt cutter")


def plasmids(rng):
    if "mods" not in _cache:
        import random
        r = random.Random(20260926)     # the plasmid texts are fixed; the case selection is seeded
        enz = enzyme()
        _cache["enz"] = enz
        _cache["mods"] = {(s, e): gen.gen_module(r, enz, s, e, tlen=3, blen=2)[0] for s in OVS for e in OVS}
        _cache["vecs"] = {(d, u): gen.gen_vector(r, enz, o5=d, o3=u, plen=2, blen=4)[0] for (d, u) in VECTORS}
        _cache["cls"] = impl.generic_classes(enz)
    return _cache


def spec(vdown, vup, mods):
    """independent specification; mods = [(start, end, oid)] in argument order"""
    if vdown == vup:
        return ("invalid",)
    seen = {}
    for s, e, i in mods:
        if s in seen and seen[s][2] != i:
            return ("duplicate",)
        seen.setdefault(s, (s, e, i))
    for s in seen:
        if gen.rc(s) in seen:
            return ("duplicate",)
    # follow start overhangs from the vector's downstream overhang
    cur, chain, used = vdown, [], set()
    while cur != vup:
        if cur not in seen or cur in used:
            return ("missing", cur)
        used.add(cur)
        chain.append(seen[cur][2])
        cur = seen[cur][1]
    return ("ok", chain, sorted(x[2] for s, x in seen.items() if s not in used))


def check_case(ctx, case):
    if "recipe" in case:
        return check_kit_graph(ctx, case)
    P = plasmids(ctx.rng)
    M, V = P["cls"]
    vdown, vup = case["vector"]
    mods = [tuple(m) for m in case["mods"]]
    # `rot`: where each plasmid happens to be opened ([vector, module 1, module 2 …] by object id): the outcome is a
    # function of the overhang graph only
    rots = case.get("rot") or []

    def opened(wd, oid):
        return gen.rot(wd, rots[oid] % len(wd)) if oid < len(rots) else wd
    vword = opened(P["vecs"][(vdown, vup)], 0)
    if case.get("vcase") == "lower":
        vword = vword.lower()
    elif case.get("vcase") == "half":
        vword = vword[:len(vword) // 2].lower() + vword[len(vword) // 2:]      # one end soft-masked, the other not
    v = EntSpec(0, V, CRec(0, vword, [], []), False)
    lower = set(case.get("lower", []))
    # `same_id`: the supplied records all carry one identifier (unnamed records, revisions of one accession):
    # which modules clash is a matter of overhangs and objects, never of names
    same = bool(case.get("same_id"))
    ents = [EntSpec(i, M, CRec(77 if same else i, opened(P["mods"][(s, e)].lower() if i in lower else P["mods"][(s, e)], i),
                               [], []), False) for (s, e, i) in mods]
    op = ("ASM", 1, 1, v, ents)
    # `share`: modules holding the same plasmid are wrappers around one record object (a file loaded once)
    reply, prod, _ = impl.run_asm(op, entities=impl.build_entities(v, ents, share=True) if case.get("share") else None)
    f = reply.split("\t")
    exp = spec(vdown, vup, mods)
    if f[0] == "err":
        got = tuple(f[1].split(":")) if f[1].startswith("missing") else (f[1],)
        if got and got[0] == "missing":
            got = ("missing", got[1].upper())
    else:
        r = impl.dec_rec(f[1])
        chain = [int(x.qual[1:]) for x in r.feats if x.ftype == 0 and x.qual.startswith("s") and x.qual != "s0"]
        got = ("ok", chain, sorted(int(x) for x in impl.dec_list(",", f[6])))
    if same and got[0] == "ok" and exp[0] == "ok":
        got = ("ok", len(got[1]), got[2])           # the chain cannot be read off source features that share a name
        exp = ("ok", len(exp[1]), exp[2])
    if got != exp:
        ctx.fail("vector down={} up={} with modules {}: implementation gives {} but the overhang graph says {}".format(
            vdown, vup, mods, got, exp), case)
    if exp[0] == "ok" and prod is None:
        ctx.fail("no record returned", case)
    if exp[0] == "ok" and exp[2] and (case.get("warn_twice") or core.pick(case, 3)):
        # left-over modules are reported at every call, not once per process: two calls under one recording block
        import warnings
        ents2 = impl.build_entities(v, ents)
        with warnings.catch_warnings(record=True) as wl:
            warnings.simplefilter("default")
            for _ in range(2):
                try:
                    ents2[0].assemble(*ents2[1])
                except Exception:  # noqa
                    pass
        nw = sum(1 for w_ in wl if isinstance(w_.message, impl.errors.UnusedModules))
        if nw != 2:
            ctx.fail("two successive assemblies that each leave modules {} unused issue {} UnusedModules warning(s) under "
                     "the default warning filter".format(exp[2], nw), case)
        ctx.note("warned-at-every-call")
    if case.get("eqclass"):
        # a laboratory's module class with value semantics (equal when the record ids are equal, hashable): two such
        # modules with one start overhang are still two modules
        Meq = type("EqModule", (M,), {"__eq__": lambda a_, b_: type(a_) is type(b_) and a_.record.id == b_.record.id,
                                      "__ne__": lambda a_, b_: not (type(a_) is type(b_) and a_.record.id == b_.record.id),
                                      "__hash__": lambda a_: hash(a_.record.id)})
        eents = [e_._replace(cls=Meq) for e_ in ents]
        reply_e, _, _ = impl.run_asm(("ASM", 1, 1, v, eents))
        fe = reply_e.split("\t")
        kind_e = "ok" if fe[0] == "ok" else fe[1].split(":")[0]
        if kind_e != exp[0]:
            ctx.fail("with a module class that defines equality by record id, vector down={} up={} and modules {} end with {} "
                     "instead of {}".format(vdown, vup, mods, kind_e, exp[0]), case)
        ctx.note("value-equality-module-class")
        # … and one that has a length, a truth value and an iterator of its own (a wrapper counting its annotations)
        Modd = type("CountingModule", (M,), {"__len__": lambda a_: 0, "__iter__": lambda a_: iter(())})
        reply_o, _, _ = impl.run_asm(("ASM", 1, 1, v, [e_._replace(cls=Modd) for e_ in ents]))
        fo = reply_o.split("\t")
        kind_o = "ok" if fo[0] == "ok" else fo[1].split(":")[0]
        if kind_o != exp[0]:
            ctx.fail("with a module class that defines __len__ (0) and __iter__, vector down={} up={} and modules {} end with {} "
                     "instead of {}".format(vdown, vup, mods, kind_o, exp[0]), case)
    ctx.note("outcome:" + exp[0])
    ctx.case(case, nontrivial=True, key=[case["vector"], sorted(mods), exp[0],
                                             (exp[1] if isinstance(exp[1], int) else len(exp[1])) if exp[0] == "ok" else 0, same])
    if got[0] == "ok":
        greply = None if same else "\t".join(["ok", impl.enc_list(",", got[1]), impl.enc_list(",", got[2])])
    elif got[0] == "missing":
        greply = "missing:" + got[1]
    else:
        greply = got[0]
    if greply is not None:
        ctx.op(("GRAPH", vup, vdown, mods), case, reply=greply)
    if case.get("asm_corr"):
        ctx.op(op, case, reply=reply)


def sticky_ends(word, enz):
    """(upstream, downstream) single-stranded ends a 5'-overhang cutter really leaves on a circular plasmid with
    exactly one site on each strand, read off the sequence by plain string search (None if not exactly two sites)"""
    site, off, k = gen.geom(enz)
    n = len(word)
    d = (word * 3).upper()
    fw = [i for i in range(n) if d[n + i:n + i + len(site)] == site]
    rv = [i for i in range(n) if d[n + i:n + i + len(site)] == gen.rc(site)]
    if len(fw) != 1 or len(rv) != 1:
        return None
    a = n + fw[0] + len(site) + off
    b = n + rv[0] - off - k
    return d[a:a + k], d[b:b + k]


def check_kit_graph(ctx, case):
    """the same statement over the kits' own classes (hand-written vector structures included): the overhang graph is
    that of the ends the cutter really leaves on each plasmid"""
    from props import c11
    m = c11.materialise({"recipe": case["recipe"]})
    if m is None or "vector" not in m:
        ctx.note("kit-graph-not-buildable")
        return
    ents = [m["vector"]] + m["mods"]
    if case.get("drop") is not None and len(m["mods"]) > 1:
        del m["mods"][case["drop"] % len(m["mods"])]
        ents = [m["vector"]] + m["mods"]
    ends = {}
    for e in ents:
        cls = asm.cls_by_name(e["cls"])
        se = sticky_ends(e["word"], cls.cutter)
        if se is None:
            ctx.note("kit-graph-skipped-sites")
            return
        ends[e["oid"]] = se
    vup, vdown = ends[m["vector"]["oid"]]
    mods = [(ends[x["oid"]][0], ends[x["oid"]][1], x["oid"]) for x in m["mods"]]
    exp = spec(vdown, vup, mods)
    reply, prod, _ = impl.run_asm(asm.asm_op(m))
    f = reply.split("\t")
    if f[0] == "err":
        got = ("missing", f[1].split(":")[1].upper()) if f[1].startswith("missing") else (f[1],)
    else:
        got = ("ok",)
    if got[0] != exp[0] or (got[0] == "missing" and got[1] != exp[1]):
        ctx.fail("{}: the ends the cutter leaves are vector {}/{} and modules {}: the overhang graph says {} but the "
                 "implementation gives {}".format(m["vector"]["cls"], vdown, vup, [(a, b) for a, b, _ in mods], exp[:2], got),
                 case)
    ctx.note("kit-graph:" + exp[0])
    ctx.case(case, nontrivial=True, key=["kit", case["recipe"][1], case["recipe"][2], case.get("drop")])


def run(ctx):
    rng = ctx.rng
    # the kits' own vector / module classes, complete chains and chains with one module taken away
    from props import c11
    import random
    for triple in c11.TRIPLES:
        for _ in range(ctx.budget(6, 150)):
            rs = rng.getrandbits(48)
            if c11.build(random.Random(rs), triple) is None:
                continue
            ctx.guard(check_case, {"recipe": ["one", list(triple), rs], "drop": rng.choice([None, None, 0, 1, 2])})
    pairs = [(a, b) for a in OVS for b in OVS]
    kmax = 2 if ctx.tier == "quick" or ctx.scale > 1 else 3
    n = 0
    for vec in VECTORS:
        for k in range(1, kmax + 1):
            for combo in itertools.combinations_with_replacement(pairs, k):
                if k == 3 and rng.random() > 0.35:
                    continue
                for perm in set(itertools.permutations(range(k))):
                    mods = [[combo[j][0], combo[j][1], j + 1] for j in perm]
                    ctx.guard(check_case, {"vector": list(vec), "mods": mods, "asm_corr": n % 10 == 0})
                    n += 1
    ctx.extra["cov_exhaustive_multisets_up_to"] = kmax if kmax < 3 else "2 (and 35% of size 3)"
    for _ in range(ctx.budget(800, 30000)):
        vec = rng.choice(VECTORS)
        k = rng.randint(3, 5)
        r = rng.random()
        if r < 0.5:     # a chain that works, plus noise
            ovs = [vec[0]] + [rng.choice(OVS) for _ in range(k - 1)] + [vec[1]]
            mods = [[ovs[i], ovs[i + 1], i + 1] for i in range(k)]
            if rng.random() < 0.5:
                mods.append([rng.choice(OVS), rng.choice(OVS), k + 1])
        else:
            mods = [[rng.choice(OVS), rng.choice(OVS), i + 1] for i in range(k)]
        if rng.random() < 0.1:
            mods.append(list(rng.choice(mods)))        # the same object twice
        rng.shuffle(mods)
        lower = [m[2] for m in mods if rng.random() < 0.3] if rng.random() < 0.5 else []
        same = rng.random() < 0.25
        rot = [rng.randrange(64) for _ in range(len(mods) + 2)] if rng.random() < 0.6 else []
        ctx.guard(check_case, {"vector": list(vec), "mods": mods, "asm_corr": (not same) and rng.random() < 0.2,
                               "lower": lower, "same_id": same, "rot": rot,
                               "vcase": rng.choice([None, None, "lower", "half"]), "warn_twice": rng.random() < 0.15})
    # the same module object listed twice (and three times) in sets that do not clash otherwise: one object is one module
    made = 0
    want = ctx.budget(60, 2000)
    for _ in range(want * 60):
        if made >= want:
            break
        vec = rng.choice(VECTORS)
        k = rng.randint(1, 4)
        if rng.random() < 0.7:
            ovs = [vec[0]] + [rng.choice(OVS) for _ in range(k - 1)] + [vec[1]]
            mods = [[ovs[i], ovs[i + 1], i + 1] for i in range(k)]
        else:
            mods = [[rng.choice(OVS), rng.choice(OVS), i + 1] for i in range(k)]
        if spec(vec[0], vec[1], [tuple(m) for m in mods])[0] not in ("ok", "missing"):
            continue
        again = rng.choice(mods)
        mods += [list(again)] * rng.choice([1, 1, 2])
        rng.shuffle(mods)
        made += 1
        same = rng.random() < 0.25
        ctx.guard(check_case, {"vector": list(vec), "mods": mods, "asm_corr": (not same) and rng.random() < 0.2,
                               "same_id": same, "share": rng.random() < 0.2,
                               "vcase": rng.choice([None, None, "lower"])})
    ctx.extra["cov_same_object_listed_again_in_clash_free_sets"] = made
    # one plasmid file loaded once and wrapped several times: distinct module objects around one record object
    for _ in range(ctx.budget(120, 3000)):
        vec = rng.choice(VECTORS)
        k = rng.randint(1, 3)
        ovs = [vec[0]] + [rng.choice(OVS) for _ in range(k - 1)] + [vec[1]]
        mods = [[ovs[i], ovs[i + 1], i + 1] for i in range(k)]
        j = rng.randrange(k)
        mods.append([mods[j][0], mods[j][1], k + 1])
        if rng.random() < 0.4:
            mods.append([rng.choice(OVS), rng.choice(OVS), k + 2])
        rng.shuffle(mods)
        ctx.guard(check_case, {"vector": list(vec), "mods": mods, "same_id": True, "share": True,
                               "vcase": rng.choice([None, "half"])})
        ctx.guard(check_case, {"vector": list(vec), "mods": mods, "same_id": True, "eqclass": True})
        ok_mods = [m_ for m_ in mods if m_[2] <= k]           # the complete chain alone, in the same class shapes
        ctx.guard(check_case, {"vector": list(vec), "mods": ok_mods, "eqclass": True})
    # reverse-complementary / equal start overhangs spelt in different cases, in every argument order
    for _ in range(ctx.budget(150, 3000)):
        vec = rng.choice([v for v in VECTORS if v[0] != v[1]])
        a = rng.choice(OVS)
        b = rng.choice([gen.rc(a) if gen.rc(a) in OVS else a, a, rng.choice(OVS)])
        mods = [[a, rng.choice(OVS), 1], [b, rng.choice(OVS), 2], [vec[0], vec[1], 3]]
        for perm in itertools.permutations(mods):
            ctx.guard(check_case, {"vector": list(vec), "mods": [list(m) for m in perm], "lower": [rng.choice([1, 2])]})
