"""C05 — a part type accepts exactly the records with its signature overhangs"""
import json
import re

import asm
import boot
import gen
import impl
import typing_h as T

TABLES = ["Kits", "Enzymes"]
LAKE_TARGETS = ["Moclo.Props.C05", "Moclo.Tables.Kits", "Moclo.Tables.Enzymes"]
THEOREMS = ["Moclo.C05." + t for t in ["narrowed_accepts_iff", "sig_narrows", "generic_eq", "part_eq", "part_accepts_iff", "kit_structures_derived", "characterize_spec"]]
# reductions under which a failing case stays a case of this property (see shrink.py)
SHRINK = {"strings": True, "freeze_if": ["real", "sigs"]}
RULE = ("every signature-derived class of the kits and user-defined signatures (incl. degenerate IUPAC ones) over "
        "every enzyme geometry; records with a unique generic match: members of the type, members of sibling types, "
        "random overhangs, near-misses differing in one overhang letter, at a random rotation; part verdict compared "
        "with generic verdict AND IUPAC match of both overhangs; characterize() checked against its candidate list. "
        "non-trivial = the generic class accepts; distinct by (class, word)")
ASSUMPTIONS = ["the record has a unique generic match (UniqueFit)"]


def sigmatch(sig, ov):
    if len(sig) != len(ov):
        return False
    return all(c.upper() in gen.IUPAC[s] for s, c in zip(sig, ov))


def generic_name(cname):
    cls = asm.cls_by_name(cname)
    kind = "V" if issubclass(cls, boot.AbstractVector) else "M"
    return "generic:{}:{}".format(kind, str(cls.cutter))


def check_case(ctx, case):
    P = asm.cls_by_name(case["cls"])
    G = asm.cls_by_name(generic_name(case["cls"]))
    wd = case["word"]
    if len(T.match_starts(G.structure(), wd)) > 1:
        ctx.note("skipped-not-unique")
        return
    up, down = P.signature
    if case.get("sibling"):
        # a type with the same signature on another cutter or in the other role exists, and was used first
        try:
            S = asm.cls_by_name(case["sibling"])
            S.structure()
            T.evaluate(S, wd)
        except Exception:  # noqa
            pass
        ctx.note("sibling-type-first")
    # the verdict must not depend on which classes were asked before: ask the signature-free ancestors of
    # the part class first (the order in which a user would naturally characterise a record)
    for anc in P.__mro__[1:]:
        if anc.__module__.startswith("moclo.kits.") and getattr(anc, "cutter", NotImplemented) is not NotImplemented \
                and issubclass(anc, (boot.AbstractModule, boot.AbstractVector)):
            try:
                T.evaluate(anc, wd)
            except Exception:  # noqa
                pass
    g = T.evaluate(G, wd)
    p = T.evaluate(P, wd)
    exp = g[0] == "valid" and sigmatch(up, g[1]) and sigmatch(down, g[2])
    if (p[0] == "valid") != exp:
        ctx.fail("{} {} {!r} but the generic class {} it and reports overhangs {} against signature ({}, {})".format(
            P.__name__, "accepts" if p[0] == "valid" else "rejects", wd,
            "accepts" if g[0] == "valid" else "rejects", g[1:3], up, down), case)
    elif exp and p[1:4] != g[1:4]:
        ctx.fail("{} reports {} where the generic class reports {}".format(P.__name__, p[1:4], g[1:4]), case)
    ctx.note("generic:" + g[0])
    ctx.note("part-accepts" if p[0] == "valid" else "part-rejects")
    ctx.case(case, nontrivial=g[0] == "valid", key=[case["cls"], wd])
    if case.get("real"):
        # a plasmid built from the enzyme's geometry alone (site with ambiguity codes): the generic class must take it
        if g[0] != "valid":
            ctx.fail("the generic class over {} rejects a plasmid built with two of its sites and overhangs {}: {!r}".format(
                P.cutter, case["real"], wd), case)
        ctx.note("degenerate-site-cutter")
        return      # the model's screen spells sites out letter by letter: oracle only for sites with ambiguity codes
    ctx.op(("EVAL", P, wd, []), case)
    ctx.op(("EVAL", G, wd, []), case)


def check_characterize(ctx, case):
    base = asm.cls_by_name(case["base"])
    wd = case["word"]
    cands = list(base.__subclasses__())
    if not impl.isabstract(base):
        cands.append(base)
    rec = impl.CircularRecord(impl.Seq(wd), id="c")
    accepting = [c for c in cands if T.evaluate(c, wd)[0] == "valid"]
    try:
        ent = base.characterize(rec)
        if not accepting:
            ctx.fail("characterize returns a {} although no candidate accepts {!r}".format(type(ent).__name__, wd), case)
        elif type(ent) not in cands or not ent.is_valid():
            ctx.fail("characterize returns a {} which is not an accepting candidate".format(type(ent).__name__), case)
        elif type(ent) is not accepting[0]:
            ctx.fail("characterize returns a {} although {} comes first among the candidates that accept {!r} (the "
                     "search takes the first valid subclass, whatever was characterised before)".format(
                         type(ent).__name__, accepting[0].__name__, wd), case)
        got = str(cands.index(type(ent))) if type(ent) in cands else "x"
    except RuntimeError as e:
        got = "none"
        if type(e) is not RuntimeError:
            ctx.fail("characterize raises {} instead of the documented RuntimeError".format(type(e).__name__), case)
        if accepting:
            ctx.fail("characterize raises RuntimeError although {} accepts {!r}".format(accepting[0].__name__, wd), case)
    except Exception as e:  # noqa
        got = "exc"
        ctx.fail("characterize raises {} on {!r}".format(type(e).__name__, wd), case)
    ctx.note("characterize:" + ("found" if got not in ("none", "exc") else got))
    ctx.case(case, nontrivial=bool(accepting), key=[case["base"], wd])
    ctx.op(("RAW", "\t".join(["CHAR", "|".join("^".join(impl.cls_fields(c)) for c in cands), wd])), case, reply=got)


def check_characterize_concrete(ctx, case):
    """characterize() asked of a concrete part type that has itself been subclassed (a laboratory's own variant
    of a kit type): the type remains a candidate for its own records.  Runs in a forked child so that the new
    subclass does not stay registered."""
    from props.c06 import forked
    cls = asm.cls_by_name(case["concrete"])
    wd = case["word"]

    def child():
        V = type("Variant", (cls,), {"signature": tuple(case["childsig"])})
        rec = impl.CircularRecord(impl.Seq(wd), id="c")
        acc = [c.__name__ for c in (V, cls) if T.evaluate(c, wd)[0] == "valid"]
        try:
            ent = cls.characterize(rec)
            return ["found", type(ent).__name__, acc]
        except RuntimeError:
            return ["none", None, acc]
    got = forked(child)
    if got[0] == "child-exception":
        ctx.fail("characterize on a subclassed concrete type raised {}: {}".format(got[1], got[2]), case)
    elif got[0] == "none" and got[2]:
        ctx.fail("{}.characterize raises RuntimeError once the type has a subclass, although {} accept(s) {!r}".format(
            cls.__name__, got[2], wd), case)
    elif got[0] == "found" and got[1] not in got[2]:
        ctx.fail("{}.characterize returns a {} which does not accept the record".format(cls.__name__, got[1]), case)
    ctx.note("characterize-concrete:" + got[0])
    ctx.case(case, nontrivial=bool(got[2]) if got[0] != "child-exception" else False, key=["cc", case["concrete"], wd])


def check_lab_family(ctx, case):
    """a laboratory's own part family: an abstract base that merely inherits `signature = NotImplemented`, two
    concrete types under it, and (variant) a type derived from a *kit* type with another signature.  Every type
    follows its own signature, and characterize() answers with an accepting candidate or RuntimeError — in a
    forked child, so that nothing stays registered."""
    from props.c06 import forked
    enz = asm.enzyme(case["enz"])
    M, _ = impl.generic_classes(enz)
    words = case["words"]            # [(word, up, down)]
    sigs = [tuple(x) for x in case["sigs"]]

    def child():
        Base = type("LabPart", (boot.AbstractPart, M), {"cutter": enz})
        # (types made by one factory function all carry one class name: they stay distinct candidates)
        kids = [type("LabType" if case.get("samename") else "LabType%d" % i, (Base,), {"signature": sg})
                for i, sg in enumerate(sigs)]
        out = []
        for (wd, u, d) in words:
            acc = ["LabType%d" % i for i, k in enumerate(kids) if T.evaluate(k, wd)[0] == "valid"]
            exp = ["LabType%d" % i for i, (k, sg) in enumerate(zip(kids, sigs)) if sigmatch(sg[0], u) and sigmatch(sg[1], d)]
            try:
                got_t = type(Base.characterize(impl.CircularRecord(impl.Seq(wd), id="c")))
                got = "LabType%d" % kids.index(got_t) if got_t in kids else got_t.__name__
            except Exception as e:  # noqa
                # the documented failure is RuntimeError itself ("could not find the type"), not a subclass such as
                # the NotImplementedError of an abstract type whose structure was consulted
                got = "RuntimeError" if type(e) is RuntimeError else "exc:" + type(e).__name__
            out.append([wd, acc, exp, got])
        # a family that has no type yet: the documented RuntimeError, nothing else
        Empty = type("EmptyFamily", (boot.AbstractPart, M), {"cutter": enz})
        try:
            Empty.characterize(impl.CircularRecord(impl.Seq(words[0][0]), id="c"))
            got_e = "returned"
        except Exception as e:  # noqa
            got_e = "RuntimeError" if type(e) is RuntimeError else "exc:" + type(e).__name__
        out.append([words[0][0], [], [], got_e])
        # a type declared first and given its signature afterwards (a plug-in filling in a placeholder class): once
        # complete it is a candidate like any other, whatever was characterised while it was not
        if case.get("late"):
            lw, lu, ld = case["late"]
            Late = type("LateType", (boot.AbstractPart, M), {"cutter": enz})        # no signature yet: abstract
            try:
                Late.characterize(impl.CircularRecord(impl.Seq(lw), id="c"))
            except Exception:  # noqa
                pass
            Late.signature = (lu, ld)
            try:
                got_l = type(Late.characterize(impl.CircularRecord(impl.Seq(lw), id="c"))).__name__
            except Exception as e:  # noqa
                got_l = "RuntimeError" if type(e) is RuntimeError else "exc:" + type(e).__name__
            out.append([lw, [got_l], ["LateType"], "-"])
        # one declaration of enzyme and signature, two roles: a mixin carrying both, combined with the module class and
        # with the vector class in subclasses whose bodies are empty — the module type is asked first
        if case.get("vwords"):
            Vc = impl.generic_classes(enz)[1]
            Gene = type("LabGene", (boot.AbstractPart,), {"cutter": enz, "signature": sigs[0]})
            roles = [(type("LabGeneEntry", (Gene, M), {}), M), (type("LabGeneAcceptor", (Gene, Vc), {}), Vc)]
            for (wd, u, d) in list(words) + [tuple(x) for x in case["vwords"]]:
                for Pc, Gc in roles:
                    g_, p_ = T.evaluate(Gc, wd), T.evaluate(Pc, wd)
                    e_ = g_[0] == "valid" and sigmatch(sigs[0][0], g_[1]) and sigmatch(sigs[0][1], g_[2])
                    if (p_[0] == "valid") != e_ or (e_ and list(p_[1:4]) != list(g_[1:4])):
                        out.append([wd, [Pc.__name__, list(p_[:3])], ["generic", list(g_[:3]), list(sigs[0])], "-"])
        # a type derived from a kit type, with its own signature
        if case.get("kit"):
            K = asm.cls_by_name(case["kit"])
            V = type("Variant", (K,), {"signature": sigs[0]})
            T.evaluate(K, words[0][0])                       # the kit type is used first
            for (wd, u, d) in words:
                v = T.evaluate(V, wd)[0] == "valid"
                out.append([wd, ["Variant"] if v else [], ["Variant"] if sigmatch(sigs[0][0], u) and sigmatch(sigs[0][1], d) else [], "-"])
        return out
    res = forked(child)
    if res and res[0] == "child-exception":
        ctx.fail("a user-defined part family raised {}: {}".format(res[1], res[2]), case)
        return
    for wd, acc, exp, got in res:
        if exp and exp[0] == "generic":
            ctx.fail("{} (a signature mixin {} combined with the generic class, empty body) answers {} on {!r} where the "
                     "generic class answers {}".format(acc[0], exp[2], acc[1], wd, exp[1]), case)
        elif acc != exp:
            ctx.fail("user-defined part types {} accept {!r}, but by their signatures {} should".format(acc, wd, exp), case)
        elif got != "-" and ((exp and got not in exp) or (not exp and got != "RuntimeError")):
            ctx.fail("characterize() over a user-defined family answers {} on {!r}; the accepting types are {}".format(
                got, wd, exp or "none (RuntimeError expected)"), case)
    ctx.note("lab-family")
    ctx.case(case, nontrivial=True, key=["lab", case["enz"], json.dumps(case["sigs"]), case.get("kit")])


def overhang_for(rng, sig, mode, pool):
    inst = "".join(rng.choice(gen.IUPAC[ch]) for ch in sig)
    if mode == 0:
        return inst
    if mode == 1 and pool:
        return rng.choice(pool)
    if mode == 2:
        return gen.rnd(rng, len(sig))
    s = list(inst)
    j = rng.randrange(len(s))
    s[j] = rng.choice([c for c in "ACGT" if c != s[j]])
    return "".join(s)


_by_k = {}


def sibling_of(rng, cls):
    """a signature-typed class with the same signature as `cls` over another cutter leaving overhangs of the same
    length (or the same cutter in the other role)"""
    if not _by_k:
        for e in boot.supported_enzymes():
            _by_k.setdefault(abs(e.ovhg), []).append(e)
    up, down = cls.signature
    own = "V" if issubclass(cls, boot.AbstractVector) else "M"
    while True:
        enz = rng.choice(_by_k.get(abs(cls.cutter.ovhg)) or [cls.cutter])
        kind = rng.choice("MV")
        if (str(enz), kind) != (str(cls.cutter), own):
            break
    return "part:{}:{}:{}:{}".format(kind, str(enz), up, down)


def make_word(rng, cls, u, d):
    enz = cls.cutter
    try:
        if issubclass(cls, boot.AbstractVector):
            return gen.gen_vector(rng, enz, o5=d, o3=u, tries=200)[0]
        return gen.gen_module(rng, enz, u, d, tries=200, tlen=2 if rng.random() < 0.15 else None)[0]   # 2 nt: the shortest insert
    except RuntimeError:
        return None


def run(ctx):
    rng = ctx.rng
    kits = boot.kit_classes()
    derived = [c for c in kits if issubclass(c, boot.AbstractPart)
               and getattr(c.structure, "__func__", None) is boot.AbstractPart.structure.__func__]
    pool = sorted({s for c in derived for s in c.signature if set(s) <= set("ACGT")})
    per = ctx.budget(10, 400)
    for cls in derived:
        up, down = cls.signature
        for i in range(per):
            mode = rng.randrange(4)
            wd = make_word(rng, cls, overhang_for(rng, up, mode, pool), overhang_for(rng, down, rng.choice([0, mode]), pool))
            if wd is None:
                continue
            ctx.guard(check_case, {"cls": asm.cls_name(cls), "word": gen.rot(wd, rng.randrange(len(wd))),
                                   "sibling": sibling_of(rng, cls) if i == 0 or rng.random() < 0.6 else None})
    for enz in asm.pick_enzymes(rng, ctx.budget(200, 6000)):
        k = abs(enz.ovhg)
        alpha = "ACGTNRYSWKMBDHV" if rng.random() < 0.7 else "N"
        up = "".join(rng.choice(alpha) for _ in range(k))
        down = "".join(rng.choice(alpha) for _ in range(k))
        kind = rng.choice("MV")
        cname = "part:{}:{}:{}:{}".format(kind, str(enz), up, down)
        cls = asm.cls_by_name(cname)
        mode = rng.randrange(4)
        wd = make_word(rng, cls, overhang_for(rng, up, mode, []), overhang_for(rng, down, rng.choice([0, mode]), []))
        if wd is None:
            continue
        ctx.guard(check_case, {"cls": cname, "word": gen.rot(wd, rng.randrange(len(wd))),
                               "sibling": sibling_of(rng, cls)})
    # user-defined parts over 5' cutters whose site has ambiguity codes (LpnPI CCDG, FaqI GGGAC is plain, BccI …):
    # the part and the signature-free class must agree on plasmids built from the enzyme's geometry alone
    degen5 = [e for e in boot.degenerate_site_enzymes() if e.is_5overhang()]
    for _ in range(ctx.budget(60, 2000)):
        if not degen5:
            break
        enz = rng.choice(degen5)
        k = abs(enz.ovhg)
        kind = rng.choice("MV")
        u, d = gen.rnd(rng, k), gen.rnd(rng, k)
        wd = gen.real_part_word(rng, enz, kind, u, d)
        if wd is None:
            continue
        sig = rng.choice([(u, d), ("N" * k, "N" * k), (u, gen.rnd(rng, k)), (gen.rnd(rng, k), d)])
        cname = "part:{}:{}:{}:{}".format(kind, str(enz), sig[0], sig[1])
        ctx.guard(check_case, {"cls": cname, "word": gen.rot(wd, rng.randrange(len(wd))), "real": [u, d],
                               "sibling": sibling_of(rng, asm.cls_by_name(cname))})
    # a laboratory's own family (abstract base inheriting the NotImplemented signature) and variants of kit types
    kit_parts = [c for c in derived if issubclass(c, boot.AbstractModule)]
    for _ in range(ctx.budget(25, 600)):
        use_kit = rng.random() < 0.5 and kit_parts
        K = rng.choice(kit_parts) if use_kit else None
        enz = K.cutter if K else rng.choice([e for e in boot.supported_enzymes() if abs(e.ovhg) >= 3])
        k = abs(enz.ovhg)
        sigs = [[gen.rnd(rng, k), gen.rnd(rng, k)], [gen.rnd(rng, k), "N" * k]]
        words = []
        for (u, d) in [tuple(sigs[0]), (sigs[1][0], gen.rnd(rng, k)), (gen.rnd(rng, k), gen.rnd(rng, k))] + \
                ([K.signature] if K and set("".join(K.signature)) <= set("ACGT") else []):
            try:
                wd, _ = gen.gen_module(rng, enz, u, d, tries=200)
            except RuntimeError:
                continue
            words.append([gen.rot(wd, rng.randrange(len(wd))), u, d])
        vwords = []
        for (u, d) in [tuple(sigs[0]), (gen.rnd(rng, k), sigs[0][1])]:
            try:
                wd, _ = gen.gen_vector(rng, enz, d, u, tries=200)     # a vector that receives what such a part replaces
            except RuntimeError:
                continue
            vwords.append([gen.rot(wd, rng.randrange(len(wd))), u, d])
        late = None
        lu, ld = gen.rnd(rng, k), gen.rnd(rng, k)
        if lu not in (sigs[0][0], sigs[1][0]) and rng.random() < 0.6:
            try:
                late = [gen.gen_module(rng, enz, lu, ld, tries=200)[0], lu, ld]
            except RuntimeError:
                late = None
        if len(words) >= 2:
            ctx.guard(check_lab_family, {"enz": str(enz), "sigs": sigs, "words": words, "vwords": vwords, "late": late,
                                         "kit": asm.cls_name(K) if K else None, "samename": rng.random() < 0.4})
    # characterize over the kit part families
    bases = [c for c in (getattr(m, n, None) for m in boot.kit_modules().values() for n in dir(m))
             if isinstance(c, type) and issubclass(c, boot.AbstractPart) and c.__subclasses__()
             and c.__module__.startswith("moclo.kits.")]
    bases = sorted(set(bases), key=lambda c: c.__name__)
    # a member of a later candidate type whose backbone happens to carry a further site followed by the upstream overhang
    # of an earlier candidate with the same downstream overhang: the earlier type's structure fits around the origin but
    # over three sites (IllegalSite) — one candidate's refusal, whatever its reason, is not a verdict on the record
    for _ in range(ctx.budget(40, 1200)):
        base = rng.choice(bases)
        subs = [c for c in base.__subclasses__() if c in derived and not issubclass(c, boot.AbstractVector)
                and set("".join(c.signature)) <= set("ACGT")]
        pairs_ = [(a_, b_) for i_, a_ in enumerate(subs) for b_ in subs[i_ + 1:]
                  if a_.signature[1] == b_.signature[1] and a_.signature[0] != b_.signature[0] and a_.cutter is b_.cutter]
        if not pairs_:
            continue
        A_, B_ = rng.choice(pairs_)
        enz = B_.cutter
        site, off, k = gen.geom(enz)
        try:
            wd, _ = gen.gen_module(rng, enz, B_.signature[0], B_.signature[1], tries=200)
        except RuntimeError:
            continue
        fb = (site, gen.rc(site))
        wd = wd + gen.rnd_avoid(rng, rng.randint(1, 5), fb) + site + gen.rnd_avoid(rng, off, fb) + A_.signature[0] + \
            gen.rnd_avoid(rng, rng.randint(2, 6), fb)
        ctx.guard(check_characterize, {"base": asm.cls_name(base), "word": gen.rot(wd, rng.randrange(len(wd)))})
        ctx.note("earlier-candidate-illegal")
    for _ in range(ctx.budget(150, 5000)):
        base = rng.choice(bases)
        subs = [c for c in base.__subclasses__() if c in derived]
        if not subs:
            continue
        cls = rng.choice(subs)
        up, down = cls.signature
        mode = rng.choice([0, 0, 2, 3])
        if rng.random() < 0.25:
            # a member of the type with a third site of the cutter inside its target: no candidate accepts
            wd = T.inner_site_instance(rng, cls, lower=rng.choice(["upper", "mixed"]))
        else:
            wd = make_word(rng, cls, overhang_for(rng, up, mode, pool), overhang_for(rng, down, 0, pool))
        if wd is None:
            continue
        ctx.guard(check_characterize, {"base": asm.cls_name(base), "word": gen.rot(wd, rng.randrange(len(wd)))})


    # a concrete kit type asked directly, after a variant of it has been declared
    for _ in range(ctx.budget(40, 800)):
        cls = rng.choice(sorted(derived, key=lambda c: c.__name__))
        up, down = cls.signature
        wd = make_word(rng, cls, overhang_for(rng, up, 0, pool), overhang_for(rng, down, 0, pool))
        if wd is None:
            continue
        k = len(up)
        other = gen.rnd(rng, k)
        ctx.guard(check_characterize_concrete, {"concrete": asm.cls_name(cls), "word": gen.rot(wd, rng.randrange(len(wd))),
                                                "childsig": [other, down]})


_check_case = check_case


def check_case(ctx, case):  # noqa: F811
    if "sigs" in case:
        ctx.guard(check_lab_family, case)
    elif "concrete" in case:
        ctx.guard(check_characterize_concrete, case)
    elif "base" in case:
        ctx.guard(check_characterize, case)
    else:
        _check_case(ctx, case)
