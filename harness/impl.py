"""Run protocol operations on the real moclo code (in-process) and render the result in the
same reply format as the Lean driver, so both sides are parsed and compared by the same code."""
import re
import warnings
from collections import namedtuple

import boot
from boot import (Seq, SeqRecord, SeqFeature, SimpleLocation, CompoundLocation, Reference,
                  CircularRecord, DNARegex, errors, AbstractModule, AbstractVector)
from wire import (Feat, CRec, w, unw, enc_list, enc_feats, enc_rec, dec_rec, dec_feats, dec_list,
                  canon_feats)

TYPES = ["source", "misc_feature", "CDS", "gene", "promoter", "terminator", "rep_origin", "primer_bind",
         ""]        # (index 8: the empty type, SeqFeature's default — only C08 generates it)


class Injected(Exception):
    """the arbitrary exception raised by a faulty fragment extraction"""


# ------------------------------------------------------------------ canonical <-> real objects
def mk_ref(k):
    r = Reference()
    # bibliography entries as they come. 100..111 go in pairs (even, odd) that are the same paper but for one field:
    # 100-103 the consortium, 104-107 the REMARK (comment), 108-111 the base range the entry refers to; 112..119 are
    # triples of different papers filed under one PubMed id (a corrected entry)
    base = k - k % 2 if 100 <= k < 112 else k
    if base % 4 == 0:
        # the reference every GenBank submission carries: one title, no identifier — told apart only by authors / journal
        r.title = "Direct Submission"
        r.journal = "Submitted ({:02d}-JAN-2020) lab {}".format(base % 28 + 1, base)
    else:
        r.title = "ref{}".format(base)
    r.authors = "A{}".format(base)
    r.consrtm = "C{}".format(base if 104 <= k < 112 else k)
    if 104 <= k < 108:
        r.comment = "remark {}".format(k)
    if 108 <= k < 112:
        r.location = [SimpleLocation(0, 10 + k)]
    elif k >= 112 and k % 5 == 3:
        r.location = [SimpleLocation(1, 9)]
    if 112 <= k < 120:
        r.pubmed_id = "PM{}".format(k // 3)
    return r


def ref_id(r):
    if isinstance(r, Reference):
        m = re.fullmatch(r"C(\d+)", r.consrtm or "")
        if m:
            for k in (int(m.group(1)), int(m.group(1)) + 1):
                if mk_ref(k) == r:
                    return k
    return None


def src_quals(rid):
    rid = "r{}".format(rid)
    return {"organism": "synthetic DNA construct", "mol_type": "other DNA", "plasmid": rid,
            "label": "source: {}".format(rid)}


def mk_loc(parts, fuzzy=False, operator="join"):
    locs = [SimpleLocation(s, e, strand=(None if st == 0 else st)) for (s, e, st) in parts]
    if fuzzy and parts[0][0] >= 0 and parts[-1][1] > parts[-1][0] and parts[0][1] > parts[0][0]:
        # a partial feature as GenBank writes it (`<12..>340`): the ends are positions like any other
        from Bio.SeqFeature import BeforePosition, AfterPosition
        s0, e0, st0 = parts[0]
        s1, e1, st1 = parts[-1]
        if len(parts) == 1:
            locs[0] = SimpleLocation(BeforePosition(s0), AfterPosition(e0), strand=(None if st0 == 0 else st0))
        else:
            locs[0] = SimpleLocation(BeforePosition(s0), e0, strand=(None if st0 == 0 else st0))
            locs[-1] = SimpleLocation(s1, AfterPosition(e1), strand=(None if st1 == 0 else st1))
    return locs[0] if len(locs) == 1 else CompoundLocation(locs, operator=operator)


def mk_feature(f):
    if f.qual.startswith("u"):
        quals = {"label": ["q" + f.qual[1:]]}
        if f.qual[1:].isdigit() and int(f.qual[1:]) % 6 == 2:
            quals["pseudo"] = [""]          # a GenBank flag qualifier (no value): part of the feature like any other
    elif f.qual.startswith("s"):
        quals = src_quals(int(f.qual[1:]))
    else:
        raise ValueError(f.qual)
    if f.cites:
        cs = []
        for c in f.cites:
            cs.append("[{}]".format(c[1:]) if c[0] == "i" else mk_ref(int(c[1:])))
        quals["citation"] = cs
    fuzzy = f.qual.startswith("u") and f.qual[1:].isdigit() and int(f.qual[1:]) % 7 == 3
    # GenBank's other compound operator, `order(...)`: same parts, same nucleotides
    order = f.qual[1:].isdigit() and int(f.qual[1:]) % 5 == 1
    return SeqFeature(mk_loc(f.parts, fuzzy=fuzzy, operator="order" if order else "join"), type=TYPES[f.ftype], qualifiers=quals)


def canon_feature(feat):
    loc = feat.location
    parts = tuple((int(p.start), int(p.end), 0 if p.strand is None else int(p.strand)) for p in loc.parts)
    quals = dict(feat.qualifiers)
    cites = quals.pop("citation", [])
    cs = []
    for c in cites:
        if isinstance(c, str) and re.fullmatch(r"\[\d+\]", c):
            cs.append("i" + c[1:-1])
        elif ref_id(c) is not None:
            cs.append("r{}".format(ref_id(c)))
        else:
            cs.append("x" + re.sub(r"[\s|;,^+]", "_", repr(c))[:40])
    qual = None
    lab_ = quals.get("label")
    if isinstance(lab_, list) and len(lab_) == 1 and isinstance(lab_[0], str) and re.fullmatch(r"q\d+", lab_[0]) \
            and sorted(quals) == (["label", "pseudo"] if int(lab_[0][1:]) % 6 == 2 else ["label"]) \
            and quals.get("pseudo", [""]) == [""]:
        qual = "u" + lab_[0][1:]
    else:
        m = re.fullmatch(r"r(\d+)", str(quals.get("plasmid", "")))
        if m and quals == src_quals(int(m.group(1))):
            qual = "s" + m.group(1)
    if qual is None:
        qual = "x" + re.sub(r"[\s|;,^+]", "_", repr(sorted(quals.items())))[:60]
    ftype = TYPES.index(feat.type) if feat.type in TYPES else 99
    return Feat(ftype, qual, tuple(cs), parts)


def mk_record(c, circular=True, track=None, topo=None):
    ann = {}
    if topo is not None:
        ann["topology"] = topo            # any letter case of "circular" is a declaration CircularRecord accepts
    if c.refs:
        ann["references"] = [mk_ref(k) for k in c.refs]
    # what files say besides: the molecule type in the words of GenBank or EMBL, a COMMENT block (a string when parsed
    # from GenBank, a list when written by this library), database cross-references
    n_ = len(c.seq)
    mt = (None, "DNA", "ds-DNA", "genomic DNA", "other DNA")[n_ % 5]
    if mt is not None:
        ann["molecule_type"] = mt
    if n_ % 4 == 1:
        ann["comment"] = "a plasmid of the collection\nsecond line"
    elif n_ % 4 == 3:
        ann["comment"] = ["a plasmid of the collection", "second line"]
    if n_ % 7 == 2:
        import datetime
        ann["date"] = datetime.datetime(2020, 1, 1 + n_ % 28)      # what the SnapGene parser leaves
    elif n_ % 7 == 4:
        ann["date"] = "{:02d}-JAN-2020".format(1 + n_ % 28)           # what the GenBank parser leaves
    la = {"track": list(track)} if track is not None else None
    cls = CircularRecord if circular else SeqRecord
    rid = "r{}".format(c.rid)
    rec = cls(Seq(c.seq), id=rid, name="L" + rid, description="d" + rid,
              features=[mk_feature(f) for f in c.feats], annotations=ann, letter_annotations=la)
    if n_ % 3 == 2:
        rec.dbxrefs = ["collection:{}".format(rid)]
    return rec


def canon_record(rec, rid=None):
    if rid is None:
        m = re.fullmatch(r"[rp](\d+)", str(rec.id))
        rid = int(m.group(1)) if m else 0
    refs = []
    for r in rec.annotations.get("references", []):
        k = ref_id(r)
        refs.append(k if k is not None else 999999)
    return CRec(rid, str(rec.seq), [canon_feature(f) for f in rec.features], refs)


# ------------------------------------------------------------------ classes
EntSpec = namedtuple("EntSpec", "oid cls crec faulty topo", defaults=(None,))


def cls_kind(cls):
    return "M" if issubclass(cls, AbstractModule) else "V"


DOCUMENTED_TAGS = ["KanR", "CamR", "CmR", "KnR", "AmpR", "SmR", "SpecR"]


def find_resistance_fn():
    """`find_resistance`, wherever the tree keeps it"""
    import importlib
    for mod in ("moclo.registry._utils", "moclo.registry.base", "moclo.registry.utils", "moclo.registry"):
        try:
            f = getattr(importlib.import_module(mod), "find_resistance", None)
        except Exception:  # noqa
            f = None
        if f is not None:
            return f
    raise ImportError("find_resistance")


def antibiotics():
    """cassette tag -> antibiotic as the tree has it: the module-level table when it is there under its name,
    otherwise read off `find_resistance` on the tags the library documents (a private table may be renamed)"""
    try:
        from moclo.registry._utils import _ANTIBIOTICS
        return dict(_ANTIBIOTICS)
    except Exception:  # noqa
        pass
    from Bio.SeqFeature import SeqFeature, SimpleLocation
    fr = find_resistance_fn()
    out = {}
    for tag in DOCUMENTED_TAGS:
        rec = SeqRecord(Seq("ACGTACGTAC"), id="res")
        rec.features.append(SeqFeature(SimpleLocation(0, 5, 1), type="CDS", qualifiers={"label": [tag]}))
        try:
            out[tag] = fr(rec)
        except Exception:  # noqa
            pass
    return out


def isabstract(cls):
    """`moclo._utils.isabstract` (a private helper: used when present, otherwise its documented meaning)"""
    try:
        from moclo._utils import isabstract as f
        return f(cls)
    except Exception:  # noqa
        import inspect
        return inspect.isabstract(cls) or any(getattr(cls, a, None) is NotImplemented for a in dir(cls))


def _canon(pat):
    import gen
    try:
        return gen.canon_pat(pat)
    except Exception:  # noqa  (syntax the reader does not know: sent as it is, and reported by the model as bad-op)
        return pat


def structure_text(cls):
    """the class's structure in the protocol's spelling"""
    return _canon(cls.structure())


def cls_fields(cls):
    """kind, pattern, site, off, k of a concrete class — read from the live class"""
    cut = cls.cutter
    return [cls_kind(cls), structure_text(cls), cut.site, str(cut.fst5 - len(cut.site)), str(abs(cut.ovhg))]


_generic_cache = {}


def generic_classes(enz):
    """fresh generic module / vector classes over an enzyme (one pair per enzyme)"""
    if enz not in _generic_cache:
        # every generic class has the same name and derives from the one made before it (a laboratory's classes
        # for its cutters are typically made by one factory, or by subclassing the previous level and changing
        # `cutter`): what a class matches must depend on its own cutter only, not on its name or its ancestors
        prev = _generic_cache.get("__last__", (AbstractModule, AbstractVector))
        M = type("GenericModule", (prev[0],), {"cutter": enz, "__doc__": "generic module over " + str(enz)})
        V = type("GenericVector", (prev[1],), {"cutter": enz, "__doc__": "generic vector over " + str(enz)})
        _generic_cache[enz] = (M, V)
        _generic_cache["__last__"] = (M, V)
    return _generic_cache[enz]


FAULT_EXC = [None]          # C07 sets KeyboardInterrupt here to model Ctrl-C during an extraction


def faulty_subclass(cls):
    def boom(self):
        raise (FAULT_EXC[0] or Injected)("injected fault")
    return type("Faulty" + cls.__name__, (cls,), {"target_sequence": boom})


def err_name(e):
    if isinstance(e, errors.IllegalSite):
        return "illegal"
    if isinstance(e, errors.InvalidSequence):
        return "invalid"
    if isinstance(e, errors.DuplicateModules):
        return "duplicate"
    if isinstance(e, errors.MissingModule):
        return "missing:" + w(str(e.start_overhang))
    if isinstance(e, Injected):
        return "injected"
    return "other:" + type(e).__name__


# ------------------------------------------------------------------ operations
# An op is a tuple whose first element names it; line(op) is what the model sees.

def line(op):
    k = op[0]
    if k == "RAW":
        return op[1]
    if k == "LM":
        return "\t".join(["LM", op[1], op[2]])
    if k == "SEARCH":
        _, pat, word, kind, linear, pos, endpos = op
        circ = (not linear) or kind == "circrec"
        return "\t".join(["SEARCH", w(pat), w(word), "1" if circ else "0", str(pos),
                          "-" if endpos is None else str(endpos)])
    if k == "FITS":
        return "\t".join(["FITS", w(_canon(op[1])), w(op[2])])
    if k == "RESIST":
        table = enc_list(",", ["{}:{}".format(str_code(a), str_code(b)) for a, b in antibiotics().items()])
        feats = enc_list("|", [enc_list(",", [str_code(l) for l in labels]) for labels in op[1]])
        return "\t".join(["RESIST", table, feats])
    if k in ("ROT", "ROTL"):
        _, word, kk, feats, track = op
        return "\t".join([k, w(word), str(kk), enc_feats(feats), enc_list(",", track)])
    if k == "RC":
        return "\t".join(["RC", w(op[1]), enc_feats(op[2])])
    if k == "IN":
        return "\t".join(["IN", w(op[1]), w(op[2])])
    if k == "SLICE":
        _, word, a, b, feats = op
        n = len(word)
        a2, b2, _ = slice(a, b).indices(n)
        return "\t".join(["SLICE", w(word), str(a2), str(b2), enc_feats(feats)])
    if k == "STRUCT":
        _, kind, enz, up, down = op
        return "\t".join(["STRUCT", kind, enz.site, str(enz.fst5 - len(enz.site)), str(abs(enz.ovhg)),
                          up if up is not None else "-", down if down is not None else "-"])
    if k == "EVAL":
        _, cls, word, feats = op
        cut = cls.cutter
        if cut.is_3overhang():
            # the other branch of target_sequence / placeholder_sequence; geometry (site, off = fst3, k)
            return "\t".join(["EVAL3", cls_kind(cls), structure_text(cls), cut.site, str(cut.fst3), str(abs(cut.ovhg)),
                              w(word), enc_feats(feats)])
        return "\t".join(["EVAL"] + cls_fields(cls) + [w(word), enc_feats(feats)])
    if k == "GRAPH":
        _, vup, vdown, mods = op
        return "\t".join(["GRAPH", vup, vdown, enc_list(",", ["{}:{}:{}".format(*m) for m in mods])])
    if k == "ASM":
        _, pid, pname, v, mods = op
        def ent(e):
            return "^".join([str(e.oid)] + cls_fields(e.cls) + ["1" if e.faulty else "0", enc_rec(e.crec)])
        return "\t".join(["ASM", str(pid), str(pname), ent(v)] + [ent(m) for m in mods])
    raise ValueError(k)


def search_target(word, kind):
    if kind == "seq":
        return Seq(word)
    # every other record carries what sequencing and curation leave on a record: a per-letter track and a feature
    rich = len(word) % 2 == 1 and len(word) >= 1
    la = {"phred": [30 + (i % 10) for i in range(len(word))]} if rich else None
    fts = [SeqFeature(SimpleLocation(0, len(word), 1), type="misc_feature", qualifiers={"label": ["whole"]})] if rich else []
    if kind == "rec":
        return SeqRecord(Seq(word), id="x", features=fts, letter_annotations=la)
    if kind == "circrec":
        if len(word) % 4 == 2:
            # a laboratory's own record type: still a circular record
            return _LabRecord(Seq(word), id="x", features=fts, letter_annotations=la)
        return CircularRecord(Seq(word), id="x", features=fts, letter_annotations=la)
    raise ValueError(kind)


class _LabRecord(CircularRecord):
    """a user-defined subclass of CircularRecord (no behaviour of its own)"""


def str_code(s):
    """a string as one natural number (UTF-8 bytes behind a leading 0x01), as in the regenerated tables"""
    return str(int.from_bytes(b"\x01" + s.encode("utf-8"), "big"))


_fit_rx = {}


def count_fits(pat, word):
    """number of ways the pattern fits the circular word (start below the length, one-turn window), counted
    with the real `DNARegex`: every wildcard run `X*` / `X*?` is spelt out as `X` repeated j times, for every
    j, and the expanded pattern is searched anchored at every start"""
    import itertools
    import gen
    toks = gen.tokens(pat)
    stars = [i for i, t in enumerate(toks) if t[0] == "star"]
    n = len(word)
    fixed = sum(1 for t in toks if t[0] == "cls")
    total = 0
    target = Seq(word)
    for js in itertools.product(range(n + 1), repeat=len(stars)):
        if fixed + sum(js) > n:
            continue
        parts = []
        it = iter(js)
        for t in toks:
            if t[0] == "open":
                parts.append("(")
            elif t[0] == "close":
                parts.append(")")
            elif t[0] == "cls":
                parts.append(t[1])
            else:
                parts.append(t[1] * next(it))
        ex = "".join(parts)
        rx = _fit_rx.get(ex)
        if rx is None:
            rx = _fit_rx[ex] = DNARegex(ex)
            if len(_fit_rx) > 20000:
                _fit_rx.clear()
        for i in range(n):
            if rx.search(target, pos=i, endpos=i + 1, linear=False) is not None:
                total += 1
    return total


def as_str(x):
    return str(x.seq) if isinstance(x, SeqRecord) else str(x)


def run(op):
    """execute on the real code; reply string in the driver's format"""
    k = op[0]
    if k == "LM":
        m = DNARegex(op[1]).search(Seq(op[2]))
        return "1" if m is not None else "0"
    if k == "SEARCH":
        _, pat, word, kind, linear, pos, endpos = op
        rx = DNARegex(pat)
        kw = {} if endpos is None else {"endpos": endpos}
        m = rx.search(search_target(word, kind), pos=pos, linear=linear, **kw)
        if m is None:
            return "none"
        ng = rx.regex.groups
        marks = [m.start()]
        for i in range(1, ng + 1):
            marks += list(m.span(i))
        marks.append(m.end())
        return "\t".join(["some", enc_list(",", marks)] + [w(as_str(m.group(i))) for i in range(ng + 1)])
    if k == "FITS":
        return str(count_fits(op[1], op[2]))
    if k == "RESIST":
        from Bio.SeqFeature import SeqFeature, SimpleLocation
        find_resistance = find_resistance_fn()
        rec = SeqRecord(Seq("ACGTACGTAC"), id="res")
        for i, labels in enumerate(op[1]):
            q = {"label": list(labels)} if labels else {}
            rec.features.append(SeqFeature(SimpleLocation(0, 5, 1), type="CDS", qualifiers=q))
        try:
            return "ok:" + str_code(find_resistance(rec))
        except RuntimeError as e:
            return "multiple" if "multiple" in str(e) else "notfound"
    if k in ("ROT", "ROTL"):
        _, word, kk, feats, track = op
        rec = mk_record(CRec(0, word, feats, []), track=track)
        try:
            out = (rec >> kk) if k == "ROT" else (rec << kk)
        except ZeroDivisionError:
            return "zerodiv"
        return "\t".join(["ok", w(str(out.seq)), enc_feats([canon_feature(f) for f in out.features]),
                          enc_list(",", out.letter_annotations.get("track", []))])
    if k == "RC":
        rec = mk_record(CRec(0, op[1], op[2], []))
        out = rec.reverse_complement()
        return "\t".join(["ok", w(str(out.seq)), enc_feats([canon_feature(f) for f in out.features])])
    if k == "IN":
        rec = CircularRecord(Seq(op[1]), id="x")
        return "1" if (op[2] in rec) else "0"
    if k == "SLICE":
        _, word, a, b, feats = op
        rec = mk_record(CRec(0, word, feats, []))
        out = rec[a:b]
        return "\t".join(["ok", w(str(out.seq)), enc_feats([canon_feature(f) for f in out.features])])
    if k == "STRUCT":
        _, kind, enz, up, down = op
        base = AbstractModule if kind == "M" else AbstractVector
        if up is None:
            cls = type("S", (base,), {"cutter": enz})
        else:
            cls = type("S", (boot.AbstractPart, base), {"cutter": enz, "signature": (up, down)})
        return w(structure_text(cls))
    if k == "EVAL":
        _, cls, word, feats = op
        rec = mk_record(CRec(0, word, feats, []))
        ent = cls(rec)
        try:
            ent.overhang_start()          # public accessor: raises the documented errors on a record that is not valid
        except errors.InvalidSequence as e:
            return err_name(e)
        # where the structure matched: the public matcher on the class's public structure (no private attribute)
        m = DNARegex(cls.structure()).search(rec)
        ng = 3
        marks = [m.start()]
        for i in range(1, ng + 1):
            marks += list(m.span(i))
        marks.append(m.end())
        t = ent.target_sequence()
        ph = w(str(ent.placeholder_sequence().seq)) if isinstance(ent, AbstractVector) else "-"
        return "\t".join(["ok", enc_list(",", marks), w(str(ent.overhang_start())), w(str(ent.overhang_end())),
                          w(str(t.seq)), enc_feats([canon_feature(f) for f in t.features]), ph])
    if k == "ASM":
        return run_asm(op)[0]
    raise ValueError(k)


def build_entities(v, mods, share=False):
    """`share`: inputs holding the same plasmid (same name, same text) are wrappers around one and the same record
    object — one file loaded once and typed several times"""
    objs = {}
    recs = {}
    pool = {}
    def get(e):
        if e.oid not in objs:
            key = (e.crec.rid, e.crec.seq, e.topo)
            rec = pool.get(key) if share else None
            if rec is None:
                rec = mk_record(e.crec, topo=e.topo)
                pool[key] = rec
            else:
                cls = faulty_subclass(e.cls) if e.faulty else e.cls
                objs[e.oid] = cls(rec)
                recs[e.oid] = rec
                return objs[e.oid]
            if len(e.crec.seq) % 3 == 1:
                # a sequence-verified clone: per-letter qualities travel with the record
                rec.letter_annotations["phred_quality"] = [20 + (i * 7) % 21 for i in range(len(e.crec.seq))]
            cls = faulty_subclass(e.cls) if e.faulty else e.cls
            objs[e.oid] = cls(rec)
            recs[e.oid] = rec
        return objs[e.oid]
    return get(v), [get(m) for m in mods], objs


def run_asm(op, entities=None):
    """returns (reply, product-or-None, entities) ; `entities` lets a caller reuse objects across calls"""
    _, pid, pname, v, mods = op
    if entities is None:
        entities = build_entities(v, mods)
    vec, ms, objs = entities
    if not ms:
        raise ValueError("assemble() takes at least one module: not a case")
    by_id = {id(o): oid for oid, o in objs.items()}
    prod = None
    with warnings.catch_warnings(record=True) as wl:
        warnings.simplefilter("always")
        try:
            prod = vec.assemble(*ms, id="p{}".format(pid), name="n{}".format(pname))
            out = None
        except Exception as e:  # noqa
            out = ["err", err_name(e)]
        except KeyboardInterrupt:
            if FAULT_EXC[0] is not KeyboardInterrupt:
                raise
            out = ["err", "injected"]          # the injected interrupt: same outcome class as the injected error
    if out is None:
        unused = []
        for wn in wl:
            if isinstance(wn.message, errors.UnusedModules):
                unused += [by_id.get(id(x), -1) for x in wn.message.remaining]
        m = re.fullmatch(r"p(\d+)", str(prod.id))
        gid = m.group(1) if m else "-1"
        m = re.fullmatch(r"n(\d+)", str(prod.name))
        gname = m.group(1) if m else "-1"
        com = prod.annotations.get("comment", [])
        cv, cm = "-1", "-1"
        for ln in com if isinstance(com, list) else []:
            m = re.fullmatch(r"Vector: r(\d+)", ln)
            if m:
                cv = m.group(1)
            m = re.fullmatch(r"Modules: (.*)", ln)
            if m:
                ids = [x.strip() for x in m.group(1).split(",")] if m.group(1) else []
                cm = enc_list(",", [x[1:] if re.fullmatch(r"r\d+", x) else "-1" for x in ids])
        out = ["ok", enc_rec(canon_record(prod, rid=pid)), gid, gname, cv, cm, enc_list(",", unused)]
    after = [canon_record(e.record) for e in [vec] + ms]
    return "\t".join(out + ["INPUTS"] + [enc_rec(r) for r in after]), prod, entities


# ------------------------------------------------------------------ comparison
def parse_reply(op, reply):
    """canonical (order-insensitive where order is not observable) view of a reply"""
    k = op[0]
    f = reply.split("\t")
    if k in ("ROT", "ROTL") and f[0] == "ok":
        return ("ok", f[1], canon_feats(dec_feats(f[2])), f[3])
    if k in ("RC", "SLICE") and f[0] == "ok":
        return ("ok", f[1], canon_feats(dec_feats(f[2])))
    if k == "EVAL" and f[0] == "ok":
        return ("ok", f[1], f[2], f[3], f[4], canon_feats(dec_feats(f[5])), f[6])
    if k == "GRAPH" and f[0] == "ok":
        return ("ok", f[1], sorted(dec_list(",", f[2])))
    if k == "ASM":
        i = f.index("INPUTS")
        head, inputs = f[:i], f[i + 1:]
        ins = []
        for s in inputs:
            r = dec_rec(s)
            ins.append((r.rid, r.seq, [(x.ftype, x.qual, x.cites, x.parts) for x in r.feats], r.refs))
        if head[0] == "ok":
            r = dec_rec(head[1])
            # product features keep their order (it is observable in the GenBank file)
            hd = ("ok", r.seq, [(x.ftype, x.qual, x.cites, x.parts) for x in r.feats], r.refs,
                  head[2], head[3], head[4], head[5], sorted(dec_list(",", head[6])))
        else:
            hd = tuple(head)
            if hd[1] in ("other:IndexError", "other:ValueError", "other:KeyError", "internal"):
                hd = ("err", "internal")      # a citation that does not index the reference list
        return (hd, ins)
    return tuple(f)
