"""Regenerate MANIFEST.json from the property modules that exist (keeps it valid at all times)."""
import importlib
import json
import os
import sys

HERE = os.path.dirname(os.path.abspath(__file__))
sys.path.insert(0, HERE)
VERIF = os.path.dirname(HERE)

LEVEL = {
    "C13": ("Lean theorems for every length, integer amount and feature shape (group laws, letter and track positions, "
            "denotation of every part modulo the length); model tied to the code by the ROT/ROTL correspondence and a "
            "metamorphic oracle on the implementation.", "§7 C13"),
    "C14": ("Lean theorems: rc involutive, letter positions, rc commutes with rotation (all integers), mirrored "
            "denotation of every part incl. off-range coordinates; RC correspondence + oracle.", "§7 C14"),
    "C15": ("Lean theorems: circular membership = occurrence in some rotation with length bound, rotation invariance, "
            "slices are list slices. PARTIAL: TypeError/ValueError/copy isolation/slice type are Python object "
            "behaviour, decided by the oracle on the implementation.", "§7 C15"),
    "C16": ("Lean theorems: IUPAC letter semantics (kernel-checked against the table regenerated from the code), "
            "matcher sound+complete w.r.t. the declarative Fits, leftmost start in range, one-turn bound, group text = "
            "matched text for every span, the reported fit is the unique fit of highest backtracking priority; "
            "SEARCH/LM/FITS correspondence against Python re + oracle.", "§7 C16"),
}
LEVEL.update({
    "C01": ("Lean theorems: whenever a product is returned its sequence is exactly the chain's retained fragments in "
            "chain order followed by the vector's (length = sum), the chain being the linked path of the overhang "
            "graph; the live structure() of generic/part classes over every supported enzyme equals the model's closed "
            "forms (kernel-checked regenerated table); conversely a well-formed assembly does return a product (completeness); "
            "canonical modules / vectors of every geometry are typed with the documented overhangs and target at every "
            "rotation. ASM/STRUCT correspondence + documented-formula oracle + object-lifecycle probes.", "§7 C01"),
    "C03": ("Lean theorems on the overhang-graph model, generic in the overhang type: success iff vector overhangs "
            "differ, no shared / reverse-complementary start overhang and a simple chain to the upstream overhang "
            "(sound + complete), error classes with precedence and stall overhang, each module used once, leftover = "
            "supplied minus chain, invariance under permutation of the arguments. GRAPH/ASM correspondence exhaustive on "
            "small multisets + independent graph oracle.", "§7 C03"),
    "C06": ("Lean theorems: cache invariant and history independence of the pattern a class is matched with, for any "
            "hierarchy and any history; counterexample theorem for the inherited-cache variant. HIST correspondence "
            "in forked fresh interpreters.", "§7 C06"),
    "C20": ("Lean theorems: mapping laws of association lists, CombinedRegistry = first-wins union (keys once, union, "
            "lookup = first member holding the key); the five embedded registries exhaustively via a kernel-checked "
            "regenerated table; the resistance a plasmid is filed under comes from the cassette-tag table (known "
            "antibiotics, kernel-checked). PARTIAL: archive / directory I/O decided by the oracle on real archives and "
            "mem:// directories.", "§7 C20"),
})
LEVEL.update({
    "C02": ("Lean theorems: typing is a function of the matched one-turn window only; under a unique structure start "
            "every rotation yields the same verdict, overhangs, target and placeholder (view invariance); assemblies of "
            "rotated inputs return the same product (role congruence through assemble). EVAL/ASM/FITS "
            "correspondence at every critical rotation + metamorphic oracle incl. registry plasmids.", "§7 C02"),
    "C04": ("Lean theorems: for cut-aligned structures (kernel-checked for all 85 kit classes on the regenerated table) "
            "reported overhangs / target / placeholder are the texts at the cut positions of the matched window; "
            "placeholder ++ target tile the plasmid; an accepted record has no further valid cut inside its target "
            "(no_inner_cut). EVAL correspondence + string-search oracle.", "§7 C04"),
    "C05": ("Lean theorems: a signature-typed structure is the generic one with groups 1/3 narrowed; acceptance = generic "
            "acceptance with signature-matching overhangs on the same window; characterize = first accepting candidate, "
            "failure iff none; kit and enzyme tables kernel-checked. EVAL/CHAR correspondence + oracle.", "§7 C05"),
    "C07": ("Lean theorems: for every vector, module list, citation state, fault position and outcome the inputs come back "
            "exactly as they were (restore o snapshot undoes dereference); second call and retry equal a first call. ASM "
            "correspondence with deep snapshots over call sequences.", "§7 C07"),
    "C08": ("Lean theorems on feature transport through rotation, slicing and concatenation (denotation modulo n), and "
            "end to end over assemble: citations aside, the product record equals the concatenation of the targets of the "
            "supplied records. ASM "
            "correspondence with annotated inputs + positional oracle.", "§7 C08"),
    "C09": ("Lean theorems: product header (id, name, comment ids), generated source features tile the product (offsets = "
            "prefix sums, total = length), each fragment occurs verbatim in a rotation of its plasmid, the product is that "
            "layout. PARTIAL: GenBank round trip is I/O, oracle only.", "§7 C09"),
    "C10": ("Lean theorems: dereference maps index i to refs[i-1]; citations are carried untouched by rotation/slicing/"
            "concatenation; the product's reference list is duplicate-free, holds exactly the cited references and every "
            "product citation [j] points to the reference its source denoted; inputs unchanged. ASM correspondence + "
            "oracle.", "§7 C10"),
    "C11": ("Lean theorems: next-level site layout of the kit vector structures (kernel-checked on the regenerated table) "
            "and fit of the next-level generic module pattern on the product text; the YTK pair (the product carries "
            "the next level's sites inside its own target). EVAL/ASM correspondence + two-level oracle for the 8 "
            "triples.", "§7 C11"),
    "C12": ("Lean theorems: the generic structures are their own reverse complement with groups 1 and 3 exchanged (all "
            "geometries), Fits is preserved by reverse complement, the illegal-site screen counts the same cuts on both "
            "strands, a generic class reports the mirror image on the other strand, and assembling the reverse "
            "complements yields (up to rotation and letter case) the reverse complement of the product. "
            "EVAL/RC/ASM/FITS correspondence + metamorphic oracle.", "§7 C12"),
    "C17": ("Lean theorems on the error taxonomy: is_valid() false iff the match fails with one of the two "
            "invalid-sequence errors, accessors then raise that error, an assembly ends with a product or a documented "
            "error. PARTIAL: 'never an internal exception' is about the Python runtime: decided by the malformed-stream "
            "correspondence and oracle.", "§7 C17"),
    "C18": ("Lean theorems: matching, the illegal-site screen and overhang keys only see nucleotide codes; any respelling "
            "of vector and modules gives the same error (class and stall overhang) or a product equal up to case with "
            "identical features/provenance (full congruence through assemble). EVAL/ASM correspondence + metamorphic "
            "oracle.", "§7 C18"),
    "C19": ("Lean theorem: replacing modules by valid modules with the same two overhangs succeeds again along the same "
            "chain; both products are the chain's fragments + the same vector fragment, differing only in the replaced "
            "segments; the same for the vector (role congruence). ASM correspondence + segment-wise oracle.", "§7 C19"),
})
NOTE = ("Trusted: Lean 4.33 kernel (+ propext, Classical.choice, Quot.sound), the hand-written model as far as the "
        "regenerated tables and the correspondence check show on each run, harness/extract.py, harness/impl.py, "
        "Model/Wire.lean, Biopython 1.88 / CPython 3.12 semantics of re, SeqRecord, locations. See DESIGN.md §9.")


def main():
    props = [json.loads(l) for l in open(os.path.join(VERIF, "properties.jsonl"))]
    checks, na = [], []
    for p in props:
        pid = p["id"]
        import importlib
        mod = importlib.import_module("props." + pid.lower()) if os.path.exists(
            os.path.join(HERE, "props", pid.lower() + ".py")) else None
        if mod is not None and getattr(mod, "THEOREMS", []) and pid in LEVEL:
            text, ref = LEVEL[pid]
            checks.append({
                "property_id": pid,
                "quick_cmd": "./check {} --tier quick".format(pid),
                "thorough_cmd": "./check {} --tier thorough".format(pid),
                "evidence_file": "evidence/{}.json".format(pid),
                "replay_cmd_template": "./check {} --replay {{path}}".format(pid),
                "engine": "lean4-model+correspondence",
                "level_claimed": {"category": "proof", "text": text, "design_ref": ref},
                "level_note": NOTE,
                "technique": "Lean 4 theorems over a hand-written executable model + differential correspondence "
                             "(compiled Lean driver vs real code) + kernel-checked regenerated tables",
            })
        else:
            na.append({"property_id": pid, "reason": "check under construction in this round (model and theorems "
                                                      "not committed yet); not claimed until it exists"})
    man = {
        "version": 1,
        "setup_cmd": "cd lean && lake build",
        "hooks": {"guard": "MOCLO_VERIF", "enable": "no source hooks are needed; the harness sets MOCLO_VERIF=1 when it "
                  "imports /repo (informational)",
                  "baseline_off_cmd": "cd /repo && /venv/bin/python -m pytest -ra -q -p no:cacheprovider --timeout=900 "
                                      "--continue-on-collection-errors",
                  "source_commits": [], "add_only": True},
        "engines": [{"name": "lean4-model+correspondence", "path": "lean/ + harness/",
                     "serves_properties": [c["property_id"] for c in checks],
                     "kind_free_text": "Lean 4 proof over an executable model; model tied to /repo by regenerated "
                                       "tables (decide +kernel) and a differential correspondence check"}],
        "checks": checks,
        "not_applicable": na,
        "notes": "All commands run from /verif and rebuild from /repo's working tree: tables are re-extracted, "
                 "`lake build` re-checks the theorems, the driver and the real code run the same operations.",
    }
    with open(os.path.join(VERIF, "MANIFEST.json"), "w") as f:
        json.dump(man, f, indent=1)
    print(len(checks), "checks;", len(na), "not claimed")


if __name__ == "__main__":
    main()
