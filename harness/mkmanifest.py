"""Regenerate MANIFEST.json from the property modules that exist (keeps it valid at all times)."""
import importlib
import json
import os
import sys

HERE = os.path.dirname(os.path.abspath(__file__))
sys.path.insert(0, HERE)
VERIF = os.path.dirname(HERE)

LEVEL = {
    "C13": ("Lean theorems for every length, integer amount and feature shape (group laws, letter and track positions, "
            "denotation of every part modulo the length); model tied to the code by the ROT/ROTL correspondence and a "
            "metamorphic oracle on the implementation.", "§7 C13"),
    "C14": ("Lean theorems: rc involutive, letter positions, rc commutes with rotation (all integers), mirrored "
            "denotation of every part incl. off-range coordinates; RC correspondence + oracle.", "§7 C14"),
    "C15": ("Lean theorems: circular membership = occurrence in some rotation with length bound, rotation invariance, "
            "slices are list slices. PARTIAL: TypeError/ValueError/copy isolation/slice type are Python object "
            "behaviour, decided by the oracle on the implementation.", "§7 C15"),
    "C16": ("Lean theorems: IUPAC letter semantics (kernel-checked against the table regenerated from the code), "
            "matcher sound+complete w.r.t. the declarative Fits, leftmost start in range, one-turn bound, group text = "
            "matched text for every span; SEARCH/LM correspondence against Python re + oracle.", "§7 C16"),
}
LEVEL.update({
    "C01": ("Lean theorems: whenever a product is returned its sequence is exactly the chain's retained fragments in "
            "chain order followed by the vector's (length = sum), the chain being the linked path of the overhang "
            "graph; the live structure() of generic/part classes over every supported enzyme equals the model's closed "
            "forms (kernel-checked regenerated table). ASM/STRUCT correspondence + documented-formula oracle.", "§7 C01"),
    "C03": ("Lean theorems on the overhang-graph model, generic in the overhang type: success iff vector overhangs "
            "differ, no shared / reverse-complementary start overhang and a simple chain to the upstream overhang "
            "(sound + complete), error classes with precedence and stall overhang, each module used once, leftover = "
            "supplied minus chain, invariance under permutation of the arguments. GRAPH/ASM correspondence exhaustive on "
            "small multisets + independent graph oracle.", "§7 C03"),
    "C06": ("Lean theorems: cache invariant and history independence of the pattern a class is matched with, for any "
            "hierarchy and any history; counterexample theorem for the inherited-cache variant. HIST correspondence "
            "in forked fresh interpreters.", "§7 C06"),
    "C20": ("Lean theorems: mapping laws of association lists, CombinedRegistry = first-wins union (keys once, union, "
            "lookup = first member holding the key); the five embedded registries exhaustively via a kernel-checked "
            "regenerated table. PARTIAL: archive / directory I/O decided by the oracle on real archives and mem:// "
            "directories.", "§7 C20"),
})
NOTE = ("Trusted: Lean 4.33 kernel (+ propext, Classical.choice, Quot.sound), the hand-written model as far as the "
        "regenerated tables and the correspondence check show on each run, harness/extract.py, harness/impl.py, "
        "Model/Wire.lean, Biopython 1.88 / CPython 3.12 semantics of re, SeqRecord, locations. See DESIGN.md §9.")


def main():
    props = [json.loads(l) for l in open(os.path.join(VERIF, "properties.jsonl"))]
    checks, na = [], []
    for p in props:
        pid = p["id"]
        if os.path.exists(os.path.join(HERE, "props", pid.lower() + ".py")) and pid in LEVEL:
            text, ref = LEVEL[pid]
            checks.append({
                "property_id": pid,
                "quick_cmd": "./check {} --tier quick".format(pid),
                "thorough_cmd": "./check {} --tier thorough".format(pid),
                "evidence_file": "evidence/{}.json".format(pid),
                "replay_cmd_template": "./check {} --replay {{path}}".format(pid),
                "engine": "lean4-model+correspondence",
                "level_claimed": {"category": "proof", "text": text, "design_ref": ref},
                "level_note": NOTE,
                "technique": "Lean 4 theorems over a hand-written executable model + differential correspondence "
                             "(compiled Lean driver vs real code) + kernel-checked regenerated tables",
            })
        else:
            na.append({"property_id": pid, "reason": "check under construction in this round (model and theorems "
                                                      "not committed yet); not claimed until it exists"})
    man = {
        "version": 1,
        "setup_cmd": "cd lean && lake build",
        "hooks": {"guard": "MOCLO_VERIF", "enable": "no source hooks are needed; the harness sets MOCLO_VERIF=1 when it "
                  "imports /repo (informational)",
                  "baseline_off_cmd": "cd /repo && /venv/bin/python -m pytest -ra -q -p no:cacheprovider --timeout=900 "
                                      "--continue-on-collection-errors",
                  "source_commits": [], "add_only": True},
        "engines": [{"name": "lean4-model+correspondence", "path": "lean/ + harness/",
                     "serves_properties": [c["property_id"] for c in checks],
                     "kind_free_text": "Lean 4 proof over an executable model; model tied to /repo by regenerated "
                                       "tables (decide +kernel) and a differential correspondence check"}],
        "checks": checks,
        "not_applicable": na,
        "notes": "All commands run from /verif and rebuild from /repo's working tree: tables are re-extracted, "
                 "`lake build` re-checks the theorems, the driver and the real code run the same operations.",
    }
    with open(os.path.join(VERIF, "MANIFEST.json"), "w") as f:
        json.dump(man, f, indent=1)
    print(len(checks), "checks;", len(na), "not claimed")


if __name__ == "__main__":
    main()
